package orda

// BOUNDED stand-in (not a proof) for the export / import round trip of List, Map, Counter and Document snapshots (C10):
// MarshalJSON / UnmarshalJSON of the snapshots and GetMetaAndSnapshot / SetMetaAndSnapshot. The clause "a restored
// instance is indistinguishable from the original" speaks about encoding/json applied to the exported structure; no
// contract within reach states what that library does, so the REAL code is run: every history of at most
// VERIF_BOUND_DEPTH steps over two replicas A and B (local calls on either, deliveries in either direction; fixed
// order, no randomness) is executed, then A is exported and imported into a fresh instance A', and
//   - A' shows the same value and size as A, and exporting A' again gives an equivalent snapshot and meta,
//   - a fixed continuation is applied to A and A' alike — B's pending and further operations delivered as remote
//     operations (they may address elements A has deleted), then local calls on A and A' — and after every step
//     both show the same value and size and return the same results.
// Injected with `go test -overlay`; nothing is written into /repo.
import (
	gocontext "context"
	"encoding/json"
	"fmt"
	"io"
	"os"
	"reflect"
	"sort"
	"strconv"
	"strings"
	"testing"

	"github.com/orda-io/orda/client/pkg/context"
	"github.com/orda-io/orda/client/pkg/iface"
	"github.com/orda-io/orda/client/pkg/internal/datatypes"
	"github.com/orda-io/orda/client/pkg/log"
	"github.com/orda-io/orda/client/pkg/model"
	"github.com/orda-io/orda/client/pkg/testonly"
	"github.com/sirupsen/logrus"
)

func vsQuiet(l *log.OrdaLog) {
	if l != nil && l.Logger != nil {
		l.Logger.SetLevel(logrus.PanicLevel)
		l.Logger.SetOutput(io.Discard)
	}
}

type vsRep struct {
	kind string
	dt   iface.Datatype // the datatype as the wire sees it
	list List
	m    Map
	c    Counter
	d    Document
	w    *datatypes.WiredDatatype
	sent int
}

func vsNew(kind string, i int) *vsRep {
	cm := &model.Client{CUID: fmt.Sprintf("%016d", i+1)}
	ctx := context.NewClientContext(gocontext.TODO(), cm)
	vsQuiet(ctx.L())
	r := &vsRep{kind: kind}
	switch kind {
	case "list":
		base := datatypes.NewBaseDatatype("bounded", model.TypeOfDatatype_LIST, ctx, model.StateOfDatatype_DUE_TO_CREATE)
		vsQuiet(base.L())
		l, err := newList(base, testonly.NewTestWire(false), nil)
		if err != nil {
			panic(err)
		}
		r.list, r.w, r.dt = l, l.(*list).WiredDatatype, l.(*list)
	case "map":
		base := datatypes.NewBaseDatatype("bounded", model.TypeOfDatatype_MAP, ctx, model.StateOfDatatype_DUE_TO_CREATE)
		vsQuiet(base.L())
		m, err := newMap(base, testonly.NewTestWire(false), nil)
		if err != nil {
			panic(err)
		}
		r.m, r.w, r.dt = m, m.(*ordaMap).WiredDatatype, m.(*ordaMap)
	case "doc":
		base := datatypes.NewBaseDatatype("bounded", model.TypeOfDatatype_DOCUMENT, ctx, model.StateOfDatatype_DUE_TO_CREATE)
		vsQuiet(base.L())
		d, err := newDocument(base, testonly.NewTestWire(false), nil)
		if err != nil {
			panic(err)
		}
		r.d, r.w, r.dt = d, d.(*document).WiredDatatype, d.(*document)
	default:
		base := datatypes.NewBaseDatatype("bounded", model.TypeOfDatatype_COUNTER, ctx, model.StateOfDatatype_DUE_TO_CREATE)
		vsQuiet(base.L())
		c, err := newCounter(base, testonly.NewTestWire(false), nil)
		if err != nil {
			panic(err)
		}
		r.c, r.w, r.dt = c, c.(*counter).WiredDatatype, c.(*counter)
	}
	return r
}

func (r *vsRep) view() string {
	var v interface{}
	size := -1
	switch r.kind {
	case "list":
		v, size = r.list.ToJSON(), r.list.Size()
	case "map":
		v, size = r.m.ToJSON(), r.m.Size()
	case "doc":
		v = r.d.GetValue()
	default:
		v = r.c.Get()
	}
	b, _ := json.Marshal(v)
	return fmt.Sprintf("%s size=%d", b, size)
}

func (r *vsRep) pending() []*model.Operation {
	all := r.w.CreatePushPullPack().Operations
	ops := all[r.sent:]
	r.sent = len(all)
	return ops
}

type vsWorld struct {
	kind string
	a, b *vsRep
	next int
}

func (w *vsWorld) fresh() string { w.next++; return "v" + strconv.Itoa(w.next) }

// local applies step `name` through the public API of r and returns a printable result
func (w *vsWorld) local(r *vsRep, name string, val string) (applicable bool, result string) {
	switch r.kind {
	case "list":
		n := r.list.Size()
		switch name {
		case "ins0":
			_, err := r.list.Insert(0, val)
			return true, fmt.Sprint(err)
		case "insEnd":
			_, err := r.list.Insert(n, val)
			return true, fmt.Sprint(err)
		case "delFirst":
			if n == 0 {
				return false, ""
			}
			v, err := r.list.Delete(0)
			return true, fmt.Sprint(v, err)
		case "delLast":
			if n == 0 {
				return false, ""
			}
			v, err := r.list.Delete(n - 1)
			return true, fmt.Sprint(v, err)
		case "upd0":
			if n == 0 {
				return false, ""
			}
			v, err := r.list.Update(0, val)
			return true, fmt.Sprint(v, err)
		case "updLast":
			if n == 0 {
				return false, ""
			}
			v, err := r.list.Update(n-1, val)
			return true, fmt.Sprint(v, err)
		}
	case "map":
		switch name {
		case "put1":
			v, err := r.m.Put("k1", val)
			return true, fmt.Sprint(v, err)
		case "put2":
			v, err := r.m.Put("k2", val)
			return true, fmt.Sprint(v, err)
		case "rem1":
			if r.m.Get("k1") == nil {
				return false, ""
			}
			v, err := r.m.Remove("k1")
			return true, fmt.Sprint(v, err)
		case "rem2":
			if r.m.Get("k2") == nil {
				return false, ""
			}
			v, err := r.m.Remove("k2")
			return true, fmt.Sprint(v, err)
		}
	case "doc":
		arr, _ := r.d.GetFromObject("arr")
		n := 0
		if arr != nil {
			if vs, ok := arr.GetValue().([]interface{}); ok {
				n = len(vs)
			}
		}
		switch name {
		case "putK":
			_, err := r.d.PutToObject("k", val)
			return true, fmt.Sprint(err)
		case "putNums":
			_, err := r.d.PutToObject("nums", []interface{}{1e19, -1e19, 0.5, 3, uint64(18446744073709551615)})
			return true, fmt.Sprint(err)
		case "putArr":
			_, err := r.d.PutToObject("arr", []interface{}{val, val + "b"})
			return true, fmt.Sprint(err)
		case "putEmptyArr":
			_, err := r.d.PutToObject("arr", []interface{}{})
			return true, fmt.Sprint(err)
		case "putObj":
			_, err := r.d.PutToObject("obj", map[string]interface{}{"a": val, "b": []interface{}{val}})
			return true, fmt.Sprint(err)
		case "delObj":
			if o, _ := r.d.GetFromObject("obj"); o == nil {
				return false, ""
			}
			_, err := r.d.DeleteInObject("obj")
			return true, fmt.Sprint(err)
		case "arrIns0":
			if arr == nil {
				return false, ""
			}
			_, err := arr.InsertToArray(0, val)
			return true, fmt.Sprint(err)
		case "arrInsEnd":
			if arr == nil {
				return false, ""
			}
			_, err := arr.InsertToArray(n, val)
			return true, fmt.Sprint(err)
		case "arrDelLast":
			if arr == nil || n == 0 {
				return false, ""
			}
			_, err := arr.DeleteInArray(n - 1)
			return true, fmt.Sprint(err)
		case "arrUpd0":
			if arr == nil || n == 0 {
				return false, ""
			}
			_, err := arr.UpdateManyInArray(0, val)
			return true, fmt.Sprint(err)
		}
	default:
		switch name {
		case "inc1":
			v, err := r.c.IncreaseBy(1)
			return true, fmt.Sprint(v, err)
		case "inc5":
			v, err := r.c.IncreaseBy(5)
			return true, fmt.Sprint(v, err)
		}
	}
	return false, ""
}

var vsLocalSteps = map[string][]string{
	"list":    {"ins0", "insEnd", "delFirst", "delLast", "upd0", "updLast"},
	"map":     {"put1", "put2", "rem1", "rem2"},
	"counter": {"inc1", "inc5"},
	"doc":     {"putArr", "putObj", "putK", "delObj", "arrIns0", "arrInsEnd", "arrDelLast", "arrUpd0", "putEmptyArr", "putNums"},
}

func vsAlphabet(kind string) []string {
	var out []string
	for _, r := range []string{"A", "B"} {
		for _, s := range vsLocalSteps[kind] {
			out = append(out, r+"."+s)
		}
		out = append(out, r+".ship")
	}
	return out
}

// vsNorm sorts the node table of a Document snapshot ("nm": written in the iteration order of a Go map, which is not
// part of the snapshot's meaning) so that equivalent snapshots compare equal.
func vsNorm(v interface{}) interface{} {
	m, ok := v.(map[string]interface{})
	if !ok {
		return v
	}
	if nm, ok := m["nm"].([]interface{}); ok {
		keyed := make([]string, len(nm))
		for i, n := range nm {
			b, _ := json.Marshal(n)
			keyed[i] = string(b)
		}
		sort.Strings(keyed)
		m["nm"] = keyed
	}
	return m
}

func vsSameJSON(x, y []byte) bool {
	var a, b interface{}
	if json.Unmarshal(x, &a) != nil || json.Unmarshal(y, &b) != nil {
		return false
	}
	return reflect.DeepEqual(vsNorm(a), vsNorm(b))
}

func vsRun(kind string, alpha []string, idx []int) (applicable bool, trace []string, failure error) {
	defer func() {
		if r := recover(); r != nil {
			applicable, failure = true, fmt.Errorf("panic: %v", r)
		}
	}()
	w := &vsWorld{kind: kind, a: vsNew(kind, 0), b: vsNew(kind, 1)}
	// start state: A fills, B receives, B changes, A receives a part
	for _, s := range vsLocalSteps[kind][:2] {
		w.local(w.a, s, w.fresh())
		w.local(w.a, s, w.fresh())
	}
	if _, err := w.b.w.ReceiveRemoteModelOperations(w.a.pending(), false); err != nil {
		return true, nil, fmt.Errorf("start state: %v", err)
	}
	for _, i := range idx {
		st := alpha[i]
		trace = append(trace, st)
		r, o := w.a, w.b
		if strings.HasPrefix(st, "B.") {
			r, o = w.b, w.a
		}
		name := st[2:]
		if name == "ship" {
			ops := r.pending()
			if len(ops) == 0 {
				return false, trace, nil
			}
			if _, err := o.w.ReceiveRemoteModelOperations(ops, false); err != nil {
				return true, trace, fmt.Errorf("delivery refused: %v", err)
			}
			continue
		}
		if ok, _ := w.local(r, name, w.fresh()); !ok {
			return false, trace, nil
		}
	}
	variant := len(idx)
	for _, i := range idx {
		variant += i
	}
	if variant&2 != 0 {
		// half of the histories export the OTHER replica (it has issued few or no operations of its own)
		w.a, w.b = w.b, w.a
	}
	// export A, import into a fresh instance
	meta, snap, err := w.a.dt.GetMetaAndSnapshot()
	if err != nil {
		return true, trace, fmt.Errorf("export failed: %v", err)
	}
	a2 := vsNew(kind, 7)
	if variant&1 != 0 {
		// half of the histories import into an instance that has already issued an operation of its own (as an
		// instance created through the client API has): the import must replace its identifiers as well
		w.local(a2, vsLocalSteps[kind][0], "own")
	}
	if err := a2.dt.SetMetaAndSnapshot(meta, snap); err != nil {
		return true, trace, fmt.Errorf("import of the exported snapshot failed: %v (snapshot %s)", err, snap)
	}
	if v1, v2 := w.a.view(), a2.view(); v1 != v2 {
		return true, trace, fmt.Errorf("C10 the restored instance shows %s, the original %s (snapshot %s)", v2, v1, snap)
	}
	meta2, snap2, err := a2.dt.GetMetaAndSnapshot()
	if err != nil {
		return true, trace, fmt.Errorf("re-export failed: %v", err)
	}
	if !vsSameJSON(snap, snap2) {
		return true, trace, fmt.Errorf("C10 exporting the restored instance again gives another snapshot: %s vs %s", snap2, snap)
	}
	if !vsSameJSON(meta, meta2) {
		return true, trace, fmt.Errorf("C10 exporting the restored instance again gives another meta: %s vs %s", meta2, meta)
	}
	// continuation, applied to A and A' alike
	cmp := func(what string) error {
		if v1, v2 := w.a.view(), a2.view(); v1 != v2 {
			return fmt.Errorf("C10 after %s the restored instance shows %s, the original %s", what, v2, v1)
		}
		return nil
	}
	deliver := func(what string) error {
		ops := w.b.pending()
		if len(ops) == 0 {
			return nil
		}
		_, e1 := w.a.w.ReceiveRemoteModelOperations(ops, false)
		_, e2 := a2.w.ReceiveRemoteModelOperations(ops, false)
		if (e1 == nil) != (e2 == nil) {
			return fmt.Errorf("C10 %s: the original answers %v, the restored instance %v", what, e1, e2)
		}
		return cmp(what)
	}
	if err := deliver("the delivery of B's pending operations"); err != nil {
		return true, trace, err
	}
	for _, s := range vsLocalSteps[kind] {
		if ok, _ := w.local(w.b, s, w.fresh()); ok {
			if err := deliver("the remote operation B." + s); err != nil {
				return true, trace, err
			}
		}
	}
	for _, s := range vsLocalSteps[kind] {
		v := w.fresh()
		ok1, r1 := w.local(w.a, s, v)
		ok2, r2 := w.local(a2, s, v)
		if ok1 != ok2 || r1 != r2 {
			return true, trace, fmt.Errorf("C10 the local call %s returns %q on the original and %q on the restored instance", s, r1, r2)
		}
		if err := cmp("the local call " + s); err != nil {
			return true, trace, err
		}
	}
	return true, trace, nil
}

func TestVerifBounded(t *testing.T) {
	depth, _ := strconv.Atoi(os.Getenv("VERIF_BOUND_DEPTH"))
	if depth <= 0 {
		depth = 3
	}
	vsQuiet(log.Logger)
	histories, steps, failures := 0, 0, 0
	sample := ""
	var bounds []string
	for _, kind := range []string{"list", "map", "counter", "doc"} {
		alpha := vsAlphabet(kind)
		bounds = append(bounds, fmt.Sprintf("%s: alphabet of %d steps", kind, len(alpha)))
		for length := 0; length <= depth && failures == 0; length++ {
			var rec func(prefix []int)
			rec = func(prefix []int) {
				if failures >= 3 {
					return
				}
				if len(prefix) < length {
					for i := range alpha {
						rec(append(append([]int{}, prefix...), i))
					}
					return
				}
				ok, trace, err := vsRun(kind, alpha, prefix)
				if !ok {
					return
				}
				histories++
				steps += len(prefix)
				if histories%499 == 1 {
					sample = kind + ": " + strings.Join(trace, " ")
				}
				if err != nil {
					failures++
					fmt.Printf("VERIF-BOUNDED-FAIL: %s, history [%s] then export of A and import into a fresh instance: %v\n", kind, strings.Join(trace, " "), err)
				}
			}
			rec(nil)
		}
	}
	fmt.Printf("VERIF-BOUNDED-SUMMARY harness=snaprt histories=%d steps=%d failures=%d bound=[every history of at most %d steps over 2 replicas before the export, per datatype (%s), from a fixed start state, followed by a fixed continuation of remote and local operations] sample=[%s]\n", histories, steps, failures, depth, strings.Join(bounds, "; "), sample)
	if failures > 0 {
		t.Fatalf("%d failing histories", failures)
	}
}
