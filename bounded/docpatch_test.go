package orda

// BOUNDED stand-in (not a proof) for Document.PatchByJSON / Patch / patchEach (C19). What PatchByJSON does is the
// edit script of a third-party diff library (github.com/wI2L/jsondiff) executed through the Document API; no contract
// within reach states what that library returns. This harness runs the REAL code on every ordered pair
// (current, target) of a fixed finite family of JSON objects and checks the property's clauses:
//   - PatchByJSON(target) returns no error and the document's value equals the target,
//   - the patch is one atomic unit (one transaction: a marker plus the operations, or a single operation),
//   - a second replica that receives the emitted operations holds the same value,
//   - and the same again for patching back from the target to the first object (removed keys and elements return).
// Family (VERIF_BOUND_DEPTH = longest array): {"a": A} for every array A over {1,2,3} up to length 3 and over {1,2} up
// to the bound; a list of objects with nested objects/arrays, the empty key, keys with "/" and "~", type changes.
// Exhaustive over the family, fixed order, no randomness; injected with `go test -overlay`.
import (
	gocontext "context"
	"encoding/json"
	"fmt"
	"io"
	"os"
	"reflect"
	"strconv"
	"testing"

	"github.com/orda-io/orda/client/pkg/context"
	"github.com/orda-io/orda/client/pkg/internal/datatypes"
	"github.com/orda-io/orda/client/pkg/log"
	"github.com/orda-io/orda/client/pkg/model"
	"github.com/orda-io/orda/client/pkg/testonly"
	"github.com/sirupsen/logrus"
)

func vpQuiet(l *log.OrdaLog) {
	if l != nil && l.Logger != nil {
		l.Logger.SetLevel(logrus.PanicLevel)
		l.Logger.SetOutput(io.Discard)
	}
}

func vpNewDoc(i int) Document {
	cm := &model.Client{CUID: fmt.Sprintf("%016d", i+1)}
	ctx := context.NewClientContext(gocontext.TODO(), cm)
	vpQuiet(ctx.L())
	base := datatypes.NewBaseDatatype("bounded", model.TypeOfDatatype_DOCUMENT, ctx, model.StateOfDatatype_DUE_TO_CREATE)
	vpQuiet(base.L())
	d, err := newDocument(base, testonly.NewTestWire(false), nil)
	if err != nil {
		panic(err)
	}
	vpQuiet(d.(*document).L())
	return d
}

func vpArrays(alpha []int, maxLen int) [][]int {
	out := [][]int{{}}
	level := [][]int{{}}
	for l := 1; l <= maxLen; l++ {
		var next [][]int
		for _, p := range level {
			for _, a := range alpha {
				next = append(next, append(append([]int{}, p...), a))
			}
		}
		out = append(out, next...)
		level = next
	}
	return out
}

func vpFamily(bound int) []string {
	seen := map[string]bool{}
	var fam []string
	add := func(s string) {
		if !seen[s] {
			seen[s] = true
			fam = append(fam, s)
		}
	}
	three := 3
	if bound >= 5 { // thorough tier
		three = 4
	}
	for _, a := range vpArrays([]int{1, 2, 3}, three) {
		b, _ := json.Marshal(map[string]interface{}{"a": a})
		add(string(b))
	}
	for _, a := range vpArrays([]int{1, 2}, bound) {
		b, _ := json.Marshal(map[string]interface{}{"a": a})
		add(string(b))
	}
	for _, s := range []string{
		`{}`, `{"a":1}`, `{"a":"x"}`, `{"a":true}`, `{"a":1.5}`, `{"b":1}`, `{"a":1,"b":2}`, `{"a":{"b":1}}`, `{"a":{"b":2,"c":[1]}}`,
		`{"a":{"b":[1,2]}}`, `{"a":{"b":{"c":"x"}}}`, `{"a":[{"k":1}]}`, `{"a":[{"k":2},1]}`, `{"a":[[1],[2]]}`, `{"a":[[1,2]]}`,
		`{"":1}`, `{"":{"":2}}`, `{"a/b":1}`, `{"a~b":2}`, `{"a~1b":3}`, `{"x":{"a/b":[1]}}`, `{"a":["x","y"]}`, `{"a":["y","x"]}`,
		`{"a":[1,"x",{"k":[2]}]}`, `{"b":[1,2],"a":[2,1]}`,
	} {
		add(s)
	}
	return fam
}

func vpSame(a interface{}, target string) bool {
	var t interface{}
	if err := json.Unmarshal([]byte(target), &t); err != nil {
		return false
	}
	b, err := json.Marshal(a)
	if err != nil {
		return false
	}
	var back interface{}
	if err := json.Unmarshal(b, &back); err != nil {
		return false
	}
	return reflect.DeepEqual(back, t)
}

func vpPair(cur, target string) (failure error) {
	defer func() {
		if r := recover(); r != nil {
			failure = fmt.Errorf("panic: %v", r)
		}
	}()
	d1, d2 := vpNewDoc(0), vpNewDoc(1)
	w1, w2 := d1.(*document).WiredDatatype, d2.(*document).WiredDatatype
	if _, err := d1.PatchByJSON(cur); err != nil {
		return fmt.Errorf("PatchByJSON(%s) on the empty document: %v", cur, err)
	}
	if !vpSame(d1.GetValue(), cur) {
		b, _ := json.Marshal(d1.GetValue())
		return fmt.Errorf("PatchByJSON(%s) on the empty document left %s", cur, b)
	}
	before := len(w1.CreatePushPullPack().Operations)
	if _, err := d1.PatchByJSON(target); err != nil {
		return fmt.Errorf("PatchByJSON(%s) returned %v", target, err)
	}
	if !vpSame(d1.GetValue(), target) {
		b, _ := json.Marshal(d1.GetValue())
		return fmt.Errorf("PatchByJSON(%s) left %s", target, b)
	}
	ops := w1.CreatePushPullPack().Operations
	emitted := ops[before:]
	if len(emitted) > 1 {
		if emitted[0].OpType != model.TypeOfOperation_TRANSACTION {
			return fmt.Errorf("PatchByJSON(%s) emitted %d operations that are not one transaction unit (first is %v)", target, len(emitted), emitted[0].OpType)
		}
		for _, o := range emitted[1:] {
			if o.OpType == model.TypeOfOperation_TRANSACTION {
				return fmt.Errorf("PatchByJSON(%s) emitted more than one transaction unit", target)
			}
		}
	}
	if _, err := w2.ReceiveRemoteModelOperations(ops, false); err != nil {
		return fmt.Errorf("the other replica refused the emitted operations: %v", err)
	}
	if !vpSame(d2.GetValue(), target) {
		b, _ := json.Marshal(d2.GetValue())
		return fmt.Errorf("the other replica holds %s after the operations of PatchByJSON(%s)", b, target)
	}
	// and back again: keys and elements that were removed are added again with the values they had
	if _, err := d1.PatchByJSON(cur); err != nil {
		return fmt.Errorf("patching back to %s returned %v", cur, err)
	}
	if !vpSame(d1.GetValue(), cur) {
		b, _ := json.Marshal(d1.GetValue())
		return fmt.Errorf("patching back: PatchByJSON(%s) after PatchByJSON(%s) left %s", cur, target, b)
	}
	all := w1.CreatePushPullPack().Operations
	if _, err := w2.ReceiveRemoteModelOperations(all[len(ops):], false); err != nil {
		return fmt.Errorf("patching back: the other replica refused the emitted operations: %v", err)
	}
	if !vpSame(d2.GetValue(), cur) {
		b, _ := json.Marshal(d2.GetValue())
		return fmt.Errorf("patching back: the other replica holds %s after the operations of PatchByJSON(%s)", b, cur)
	}
	return nil
}

func TestVerifBounded(t *testing.T) {
	bound, _ := strconv.Atoi(os.Getenv("VERIF_BOUND_DEPTH"))
	if bound <= 0 {
		bound = 3
	}
	bound++ // arrays one longer than the history bound of the other harness: 4 (quick), 5 (thorough)
	vpQuiet(log.Logger)
	fam := vpFamily(bound)
	pairs, failures := 0, 0
	sample := ""
	for i, cur := range fam {
		for j, target := range fam {
			if failures >= 3 {
				break
			}
			pairs++
			if (i*len(fam)+j)%977 == 5 {
				sample = cur + " -> " + target
			}
			if err := vpPair(cur, target); err != nil {
				failures++
				fmt.Printf("VERIF-BOUNDED-FAIL: document %s, PatchByJSON(%s): C19 %v\n", cur, target, err)
			}
		}
	}
	fmt.Printf("VERIF-BOUNDED-SUMMARY harness=docpatch histories=%d steps=%d failures=%d bound=[every ordered pair (current, target), patched there and back, of a family of %d JSON objects: arrays over {1,2,3} up to length %d and over {1,2} up to length %d under one key, and 25 hand-picked nested objects; 2 replicas] sample=[%s]\n", pairs, 3*pairs, failures, len(fam), map[bool]int{true: 4, false: 3}[bound >= 5], bound, sample)
	if failures > 0 {
		t.Fatalf("%d failing pairs", failures)
	}
}
