package orda

// BOUNDED stand-in (not a proof) for the Document functions whose effect on json values is outside the contracts:
// jsonArray.insertCommon / deleteLocal / deleteRemote / updateLocal / updateRemote, jsonObject.putCommon /
// deleteCommonInObject and the jsonPrimitive dispatchers above them. It runs the REAL code: every history of at most
// VERIF_BOUND_DEPTH steps over VERIF_BOUND_REPLICAS replicas from a fixed start state is executed (exhaustively, in a
// fixed order, no randomness) and the clauses of C01, C02, C03 and C04 that can be observed from outside are checked
// after every step and at quiescence. The file is injected with `go test -overlay`; nothing is written into /repo.
//
// start state (built through the public API and shipped to every replica):
//   {"arr": [e1, (e2 deleted), e3, e4], "obj": {"a": "o1"}}
// steps: per replica — insert at 0 / at 1 / at the end, delete first / last, update first, update the first two
// (the range then spans e2's tombstone), put and remove a scalar under "k", replace "obj", put inside "obj",
// remove "obj"; and "ship r": r's not yet shipped operations are delivered to every other replica.
import (
	gocontext "context"
	"encoding/json"
	"fmt"
	"io"
	"math"
	"os"
	"strconv"
	"strings"
	"testing"

	"github.com/orda-io/orda/client/pkg/context"
	"github.com/orda-io/orda/client/pkg/internal/datatypes"
	"github.com/orda-io/orda/client/pkg/log"
	"github.com/orda-io/orda/client/pkg/model"
	"github.com/orda-io/orda/client/pkg/testonly"
	"github.com/sirupsen/logrus"
)

type vbRep struct {
	Document
	sent int
	gone map[string]bool // slots this replica has shown and then stopped showing
	seen map[string]bool
}

type vbStamp struct {
	lamport uint64
	cuid    string
	val     string // "" for a remove / delete
}

type vbWorld struct {
	reps    []*vbRep
	next    int
	deleted map[string]bool      // slots some replica deleted
	created map[string]bool      // slots some replica inserted
	kOps    []vbStamp            // puts / removes of key "k"
	slotOps map[string][]vbStamp // updates of a slot (val) and its delete ("")
	trace   []string
}

func vbQuiet(l *log.OrdaLog) {
	if l != nil && l.Logger != nil {
		l.Logger.SetLevel(logrus.PanicLevel)
		l.Logger.SetOutput(io.Discard)
	}
}

func vbNewRep(i int) *vbRep {
	cm := &model.Client{CUID: fmt.Sprintf("%016d", i+1)}
	ctx := context.NewClientContext(gocontext.TODO(), cm)
	vbQuiet(ctx.L())
	base := datatypes.NewBaseDatatype("bounded", model.TypeOfDatatype_DOCUMENT, ctx, model.StateOfDatatype_DUE_TO_CREATE)
	vbQuiet(base.L())
	d, err := newDocument(base, testonly.NewTestWire(false), nil)
	if err != nil {
		panic(err)
	}
	vbQuiet(d.(*document).L())
	return &vbRep{Document: d, gone: map[string]bool{}, seen: map[string]bool{}}
}

func (r *vbRep) wired() *datatypes.WiredDatatype { return r.Document.(*document).WiredDatatype }

func (r *vbRep) lastStamp() (uint64, string) {
	ops := r.wired().CreatePushPullPack().Operations
	id := ops[len(ops)-1].ID
	return id.Lamport, id.CUID
}

func (w *vbWorld) ship(from int) error {
	r := w.reps[from]
	all := r.wired().CreatePushPullPack().Operations
	ops := all[r.sent:]
	r.sent = len(all)
	if len(ops) == 0 {
		return nil
	}
	for i, to := range w.reps {
		if i == from {
			continue
		}
		if _, err := to.wired().ReceiveRemoteModelOperations(ops, false); err != nil {
			return fmt.Errorf("replica %d refused operations of replica %d: %v", i, from, err)
		}
	}
	return nil
}

func (w *vbWorld) fresh(prefix string) string {
	w.next++
	return prefix + strconv.Itoa(w.next)
}

func slotOf(v string) string {
	if i := strings.Index(v, "~"); i >= 0 {
		return v[:i]
	}
	return v
}

func (r *vbRep) arr() Document {
	a, err := r.GetFromObject("arr")
	if err != nil || a == nil {
		return nil
	}
	return a
}

func (r *vbRep) arrValues() ([]string, error) {
	a := r.arr()
	if a == nil {
		return nil, fmt.Errorf("the array under \"arr\" is not readable")
	}
	vs, ok := a.GetValue().([]interface{})
	if !ok {
		return nil, fmt.Errorf("the array under \"arr\" reads as %T", a.GetValue())
	}
	var out []string
	for _, v := range vs {
		s, ok := v.(string)
		if !ok {
			return nil, fmt.Errorf("array element %v is not the string that was inserted", v)
		}
		out = append(out, s)
	}
	return out, nil
}

// invariants that must hold at every moment (C04) ----------------------------------------------------------------
func (w *vbWorld) checkNow() error {
	var views [][]string
	for i, r := range w.reps {
		vs, err := r.arrValues()
		if err != nil {
			return fmt.Errorf("replica %d: %v", i, err)
		}
		now := map[string]bool{}
		for _, v := range vs {
			s := slotOf(v)
			if now[s] {
				return fmt.Errorf("C04 replica %d shows element %s twice: %v", i, s, vs)
			}
			now[s] = true
			if !w.created[s] {
				return fmt.Errorf("C04 replica %d shows element %s that nobody inserted: %v", i, s, vs)
			}
			if r.gone[s] {
				return fmt.Errorf("C04 replica %d shows element %s again after it had disappeared (resurrected): %v", i, s, vs)
			}
		}
		for s := range r.seen {
			if !now[s] {
				if !w.deleted[s] {
					return fmt.Errorf("C04 replica %d lost element %s that nobody deleted: %v", i, s, vs)
				}
				r.gone[s] = true
			}
		}
		for s := range now {
			r.seen[s] = true
		}
		views = append(views, vs)
	}
	for i := 0; i < len(views); i++ {
		for j := i + 1; j < len(views); j++ {
			pos := map[string]int{}
			for p, v := range views[j] {
				pos[slotOf(v)] = p
			}
			last := -1
			for _, v := range views[i] {
				if p, ok := pos[slotOf(v)]; ok {
					if p < last {
						return fmt.Errorf("C04 replicas %d and %d show common elements in different relative order: %v vs %v", i, j, views[i], views[j])
					}
					last = p
				}
			}
		}
	}
	return nil
}

func newest(ops []vbStamp) vbStamp {
	best := ops[0]
	for _, o := range ops[1:] {
		if o.lamport > best.lamport || (o.lamport == best.lamport && o.cuid > best.cuid) {
			best = o
		}
	}
	return best
}

// quiescence: everything shipped, then C01 (same view), C02 (newest operation wins), C04 (nothing lost) ------------
func (w *vbWorld) checkQuiescent() error {
	for round := 0; round < 2; round++ {
		for i := range w.reps {
			if err := w.ship(i); err != nil {
				return err
			}
			if err := w.checkNow(); err != nil {
				return fmt.Errorf("while delivering the rest: %v", err)
			}
		}
	}
	var first string
	for i, r := range w.reps {
		b, err := json.Marshal(r.GetValue())
		if err != nil {
			return fmt.Errorf("replica %d: view does not marshal: %v", i, err)
		}
		if i == 0 {
			first = string(b)
		} else if string(b) != first {
			return fmt.Errorf("C01 replicas 0 and %d differ after all operations were delivered: %s vs %s", i, first, b)
		}
	}
	r0 := w.reps[0]
	vs, _ := r0.arrValues()
	vis := map[string]string{}
	for _, v := range vs {
		vis[slotOf(v)] = v
	}
	for s := range w.created {
		if _, ok := vis[s]; !ok && !w.deleted[s] {
			return fmt.Errorf("C04 element %s was inserted, never deleted, and is absent at quiescence: %v", s, vs)
		}
		if _, ok := vis[s]; ok && w.deleted[s] {
			return fmt.Errorf("C04 element %s was deleted and is present at quiescence: %v", s, vs)
		}
	}
	for s, ops := range w.slotOps {
		if w.deleted[s] {
			continue
		}
		if want := newest(ops).val; vis[s] != want {
			return fmt.Errorf("C02 element %s holds %q at quiescence, its newest update wrote %q", s, vis[s], want)
		}
	}
	if len(w.kOps) > 0 {
		want := newest(w.kOps).val
		got := ""
		if m, ok := r0.GetValue().(map[string]interface{}); ok {
			if v, ok := m["k"]; ok {
				got, _ = v.(string)
			}
		}
		if got != want {
			return fmt.Errorf("C02 key \"k\" holds %q at quiescence, the operation with the greatest timestamp wrote %q", got, want)
		}
	}
	return nil
}

type vbStep struct {
	name string
	run  func(w *vbWorld) (applicable bool, err error)
}

func (w *vbWorld) insertAt(r int, where string) (bool, error) {
	rep := w.reps[r]
	vs, err := rep.arrValues()
	if err != nil {
		return true, err
	}
	pos := 0
	switch where {
	case "1":
		if len(vs) < 1 {
			return false, nil
		}
		pos = 1
	case "end":
		pos = len(vs)
	}
	v := w.fresh("e")
	w.created[v] = true
	if _, err := rep.arr().InsertToArray(pos, v); err != nil {
		return true, fmt.Errorf("C03 InsertToArray(%d) on %v refused: %v", pos, vs, err)
	}
	after, err := rep.arrValues()
	if err != nil {
		return true, err
	}
	if pos >= len(after) || after[pos] != v {
		return true, fmt.Errorf("C04 local insert at index %d is not readable at index %d: %v", pos, pos, after)
	}
	if len(after) != len(vs)+1 {
		return true, fmt.Errorf("C03 insert changed the length from %d to %d", len(vs), len(after))
	}
	return true, nil
}

func (w *vbWorld) deleteAt(r int, last bool) (bool, error) {
	rep := w.reps[r]
	vs, err := rep.arrValues()
	if err != nil {
		return true, err
	}
	if len(vs) == 0 {
		return false, nil
	}
	pos := 0
	if last {
		pos = len(vs) - 1
	}
	s := slotOf(vs[pos])
	w.deleted[s] = true
	d, err2 := rep.arr().DeleteInArray(pos)
	if err2 != nil {
		return true, fmt.Errorf("C03 DeleteInArray(%d) on %v refused: %v", pos, vs, err2)
	}
	if d == nil || d.GetValue() != vs[pos] {
		return true, fmt.Errorf("C03 DeleteInArray(%d) on %v returned %v", pos, vs, d)
	}
	l, c := rep.lastStamp()
	w.slotOps[s] = append(w.slotOps[s], vbStamp{l, c, ""})
	after, _ := rep.arrValues()
	if len(after) != len(vs)-1 {
		return true, fmt.Errorf("C03 delete changed the length from %d to %d: %v", len(vs), len(after), after)
	}
	return true, nil
}

func (w *vbWorld) updateAt(r int, n int) (bool, error) {
	rep := w.reps[r]
	vs, err := rep.arrValues()
	if err != nil {
		return true, err
	}
	if len(vs) < n {
		return false, nil
	}
	var nv []interface{}
	var names []string
	for i := 0; i < n; i++ {
		w.next++
		v := slotOf(vs[i]) + "~" + strconv.Itoa(w.next)
		nv = append(nv, v)
		names = append(names, v)
	}
	if _, err := rep.arr().UpdateManyInArray(0, nv...); err != nil {
		return true, fmt.Errorf("C03 UpdateManyInArray(0, %v) on %v refused: %v", nv, vs, err)
	}
	l, c := rep.lastStamp()
	for _, v := range names {
		w.slotOps[slotOf(v)] = append(w.slotOps[slotOf(v)], vbStamp{l, c, v})
	}
	after, err := rep.arrValues()
	if err != nil {
		return true, err
	}
	if len(after) != len(vs) {
		return true, fmt.Errorf("C03/C04 update of %d elements changed the length: %v -> %v", n, vs, after)
	}
	for i := 0; i < n; i++ {
		if after[i] != names[i] {
			return true, fmt.Errorf("C03 after UpdateManyInArray(0, %v) index %d reads %q: %v -> %v", nv, i, after[i], vs, after)
		}
	}
	return true, nil
}

func (w *vbWorld) putK(r int) (bool, error) {
	rep := w.reps[r]
	v := w.fresh("k")
	if _, err := rep.PutToObject("k", v); err != nil {
		return true, fmt.Errorf("C03 PutToObject(k) refused: %v", err)
	}
	l, c := rep.lastStamp()
	w.kOps = append(w.kOps, vbStamp{l, c, v})
	if m, ok := rep.GetValue().(map[string]interface{}); !ok || m["k"] != v {
		return true, fmt.Errorf("C03 after PutToObject(k, %s) the key reads %v", v, rep.GetValue())
	}
	return true, nil
}

func (w *vbWorld) delK(r int) (bool, error) {
	rep := w.reps[r]
	m, _ := rep.GetValue().(map[string]interface{})
	if _, ok := m["k"]; !ok {
		return false, nil
	}
	if _, err := rep.DeleteInObject("k"); err != nil {
		return true, fmt.Errorf("C03 DeleteInObject(k) on %v refused: %v", m, err)
	}
	l, c := rep.lastStamp()
	w.kOps = append(w.kOps, vbStamp{l, c, ""})
	if m2, _ := rep.GetValue().(map[string]interface{}); m2 != nil {
		if _, ok := m2["k"]; ok {
			return true, fmt.Errorf("C03 after DeleteInObject(k) the key still reads %v", m2["k"])
		}
	}
	return true, nil
}

func (w *vbWorld) putObj(r int) (bool, error) {
	rep := w.reps[r]
	// besides string-keyed containers the value carries Go maps with other key types (C14: the issuing replica builds
	// its effect from the Go value, every other replica from the JSON body of the operation)
	if _, err := rep.PutToObject("obj", map[string]interface{}{"a": w.fresh("o"), "b": []interface{}{w.fresh("o")},
		"u": map[uint64]interface{}{math.MaxUint64: w.fresh("o"), 7: int8(-3)}, "i": map[int8]string{-3: "z", 5: "y"}}); err != nil {
		return true, fmt.Errorf("C03 PutToObject(obj) refused: %v", err)
	}
	return true, nil
}

func (w *vbWorld) putInObj(r int) (bool, error) {
	rep := w.reps[r]
	o, err := rep.GetFromObject("obj")
	if err != nil || o == nil {
		return false, nil
	}
	v := w.fresh("o")
	if _, err := o.PutToObject("a", v); err != nil {
		return true, fmt.Errorf("C03 PutToObject(a) inside obj refused: %v", err)
	}
	if m, ok := o.GetValue().(map[string]interface{}); !ok || m["a"] != v {
		return true, fmt.Errorf("C03 after PutToObject(a, %s) inside obj it reads %v", v, o.GetValue())
	}
	return true, nil
}

func (w *vbWorld) delObj(r int) (bool, error) {
	rep := w.reps[r]
	o, err := rep.GetFromObject("obj")
	if err != nil || o == nil {
		return false, nil
	}
	if _, err := rep.DeleteInObject("obj"); err != nil {
		return true, fmt.Errorf("C03 DeleteInObject(obj) refused: %v", err)
	}
	return true, nil
}

func vbAlphabet(nrep int) []vbStep {
	var out []vbStep
	for r := 0; r < nrep; r++ {
		r := r
		add := func(n string, f func(w *vbWorld) (bool, error)) {
			out = append(out, vbStep{fmt.Sprintf("r%d.%s", r, n), f})
		}
		add("ins0", func(w *vbWorld) (bool, error) { return w.insertAt(r, "0") })
		add("ins1", func(w *vbWorld) (bool, error) { return w.insertAt(r, "1") })
		add("insEnd", func(w *vbWorld) (bool, error) { return w.insertAt(r, "end") })
		add("delFirst", func(w *vbWorld) (bool, error) { return w.deleteAt(r, false) })
		add("delLast", func(w *vbWorld) (bool, error) { return w.deleteAt(r, true) })
		add("upd1", func(w *vbWorld) (bool, error) { return w.updateAt(r, 1) })
		add("upd2", func(w *vbWorld) (bool, error) { return w.updateAt(r, 2) })
		add("putK", func(w *vbWorld) (bool, error) { return w.putK(r) })
		add("delK", func(w *vbWorld) (bool, error) { return w.delK(r) })
		add("putObj", func(w *vbWorld) (bool, error) { return w.putObj(r) })
		add("putInObj", func(w *vbWorld) (bool, error) { return w.putInObj(r) })
		add("delObj", func(w *vbWorld) (bool, error) { return w.delObj(r) })
		add("ship", func(w *vbWorld) (bool, error) {
			rep := w.reps[r]
			if len(rep.wired().CreatePushPullPack().Operations) == rep.sent {
				return false, nil
			}
			return true, w.ship(r)
		})
	}
	return out
}

func vbStart(nrep int) (*vbWorld, error) {
	w := &vbWorld{deleted: map[string]bool{}, created: map[string]bool{}, slotOps: map[string][]vbStamp{}}
	for i := 0; i < nrep; i++ {
		w.reps = append(w.reps, vbNewRep(i))
	}
	for _, e := range []string{"e1", "e2", "e3", "e4"} {
		w.created[e] = true
	}
	w.next = 4
	if _, err := w.reps[0].PutToObject("arr", []interface{}{"e1", "e2", "e3", "e4"}); err != nil {
		return nil, err
	}
	if _, err := w.reps[0].PutToObject("obj", map[string]interface{}{"a": "o1"}); err != nil {
		return nil, err
	}
	if err := w.ship(0); err != nil {
		return nil, err
	}
	last := w.reps[nrep-1]
	w.deleted["e2"] = true
	if _, err := last.arr().DeleteInArray(1); err != nil {
		return nil, err
	}
	if err := w.ship(nrep - 1); err != nil {
		return nil, err
	}
	if err := w.checkNow(); err != nil {
		return nil, err
	}
	return w, nil
}

// runHistory executes the steps named by idx from the start state; it reports whether the whole history was
// applicable (a history with an inapplicable step is a duplicate of a shorter one and is not counted).
func runHistory(alpha []vbStep, nrep int, idx []int, quiesce bool) (applicable bool, trace []string, failure error) {
	defer func() {
		if r := recover(); r != nil {
			applicable, failure = true, fmt.Errorf("C03 panic: %v", r)
		}
	}()
	w, err := vbStart(nrep)
	if err != nil {
		return true, nil, fmt.Errorf("start state: %v", err)
	}
	for _, i := range idx {
		st := alpha[i]
		trace = append(trace, st.name)
		ok, err := st.run(w)
		if !ok {
			return false, trace, nil
		}
		if err != nil {
			return true, trace, err
		}
		if err := w.checkNow(); err != nil {
			return true, trace, err
		}
	}
	if quiesce {
		if err := w.checkQuiescent(); err != nil {
			return true, trace, err
		}
	}
	return true, trace, nil
}

func vbExplore(nrep, depth int) (histories, steps, failures int, sample string, alphabet int) {
	alpha := vbAlphabet(nrep)
	// shortest histories first, so that the first failure reported is a shortest one
	for length := 1; length <= depth && failures == 0; length++ {
		var rec func(prefix []int)
		rec = func(prefix []int) {
			if failures >= 3 {
				return
			}
			if len(prefix) < length {
				for i := range alpha {
					rec(append(append([]int{}, prefix...), i))
				}
				return
			}
			ok, trace, err := runHistory(alpha, nrep, prefix, true)
			if !ok {
				return // a step was not applicable: the history is a duplicate of a shorter one
			}
			histories++
			steps += len(prefix)
			if histories%977 == 1 {
				sample = strings.Join(trace, " ")
			}
			if err != nil {
				failures++
				fmt.Printf("VERIF-BOUNDED-FAIL: history [%s] (from {\"arr\":[e1,(e2 deleted),e3,e4],\"obj\":{\"a\":\"o1\"}}, %d replicas): %v\n", strings.Join(trace, " "), nrep, err)
			}
		}
		rec(nil)
	}
	return histories, steps, failures, sample, len(alpha)
}

func TestVerifBounded(t *testing.T) {
	depth, _ := strconv.Atoi(os.Getenv("VERIF_BOUND_DEPTH"))
	if depth <= 0 {
		depth = 3
	}
	nrep, _ := strconv.Atoi(os.Getenv("VERIF_BOUND_REPLICAS"))
	if nrep < 2 {
		nrep = 2
	}
	vbQuiet(log.Logger)
	histories, steps, failures, sample, alphabet := vbExplore(nrep, depth)
	bound := fmt.Sprintf("every history of at most %d steps from an alphabet of %d steps over %d replicas, fixed start state", depth, alphabet, nrep)
	if depth >= 4 && failures == 0 { // thorough tier: three replicas as well, one step shorter
		h2, s2, f2, _, a2 := vbExplore(nrep+1, depth-1)
		histories, steps, failures = histories+h2, steps+s2, failures+f2
		bound += fmt.Sprintf("; and every history of at most %d steps from an alphabet of %d steps over %d replicas", depth-1, a2, nrep+1)
	}
	fmt.Printf("VERIF-BOUNDED-SUMMARY harness=doctree histories=%d steps=%d failures=%d bound=[%s] sample=[%s]\n", histories, steps, failures, bound, sample)
	if failures > 0 {
		t.Fatalf("%d failing histories", failures)
	}
}
