package main

// Verification of one function against its contract and discharge of the
// resulting obligations.

import (
	"fmt"
	"go/types"
	"os"
	"path/filepath"
	"regexp"
	"runtime/debug"
	"sort"
	"strconv"
	"strings"
	"sync"

	"golang.org/x/tools/go/ssa"
)

type FuncResult struct {
	Key       string
	Contract  *Contract
	VC        *VC
	Refused   string
	Obls      []*Oblig
	Externs   []string
	Inlined   []string
	CallsBy   []string
	Notes     []string
	Mode      string
	IsLemma   bool
	NumInstrs int
}

func (e *Engine) verifyFunc(fn *ssa.Function, c *Contract) (fres *FuncResult) {
	x := newVC(e, fn, c)
	fres = &FuncResult{Key: fnKeyShort(fn), Contract: c, VC: x, Mode: modeName(x), IsLemma: c != nil && c.Lemma}
	for _, b := range fn.Blocks {
		fres.NumInstrs += len(b.Instrs)
	}
	defer func() {
		if r := recover(); r != nil {
			if rf, ok := r.(refusal); ok {
				fres.Refused = rf.msg
			} else {
				fres.Refused = fmt.Sprintf("engine panic: %v\n%s", r, debug.Stack())
			}
		}
		fres.Obls = x.obls
		for k := range x.externs {
			if !strings.HasPrefix(k, "decl:") {
				fres.Externs = append(fres.Externs, k)
			}
		}
		for k := range x.inlined {
			fres.Inlined = append(fres.Inlined, k)
		}
		for k := range x.callsBy {
			fres.CallsBy = append(fres.CallsBy, k)
		}
		sort.Strings(fres.Externs)
		sort.Strings(fres.Inlined)
		sort.Strings(fres.CallsBy)
		fres.Notes = x.notes
	}()
	st := &State{ep: &Epoch{id: 0, kind: "base"}, H: map[string]string{}, C: map[*ssa.Alloc]*Val{}}
	x.entry = st.clone()
	var args []*Val
	for _, p := range fn.Params {
		v := x.fresh(p.Type(), p.Name(), "true", st)
		x.allocatedFact(v, st)
		args = append(args, v)
		if v.K == KScalar {
			x.modelVals = append(x.modelVals, v.T)
			x.modelLbl[v.T] = p.Name()
		} else if v.K == KSlice {
			x.modelVals = append(x.modelVals, v.Len)
			x.modelLbl[v.Len] = "len(" + p.Name() + ")"
		}
	}
	// a function literal under contract: every captured variable lives in a heap cell of its own (SSA free variables
	// are pointers to them); the cells exist at entry, are pairwise distinct, and hold arbitrary values. Contracts name
	// the captured variables by their source names (their CURRENT content, old(v) their content at entry).
	var binds []*Val
	for _, fv := range fn.FreeVars {
		pt, ok := fv.Type().(*types.Pointer)
		if !ok || x.sortOf(pt.Elem()) == "" {
			x.refuse("captured variable %s of %s has a composite type the engine does not model as a cell", fv.Name(), fn)
		}
		v := x.fresh(fv.Type(), "fv_"+fv.Name(), "true", st)
		x.fact(sNot(sEq(v.T, "0")))
		x.allocatedFact(v, st)
		for _, o := range binds {
			if types.Identical(o.GT, v.GT) {
				x.fact(sNot(sEq(o.T, v.T)))
			}
		}
		binds = append(binds, v)
		x.fvPtr[fv.Name()] = v
	}
	env := &SEnv{x: x, vars: map[string]*Val{}, cur: st, old: st, fn: fn}
	if fn.Pkg != nil {
		env.pkg = fn.Pkg.Pkg
	}
	for i, p := range fn.Params {
		env.vars[p.Name()] = args[i]
	}
	// implicit precondition: pointer receivers are non-nil
	if fn.Signature.Recv() != nil && len(args) > 0 && args[0].K == KScalar {
		if _, ok := fn.Params[0].Type().Underlying().(*types.Pointer); ok {
			x.fact(sNot(sEq(args[0].T, "0")))
		}
	}
	e.assumeAxioms(x, env)
	if c != nil {
		for _, r := range c.Requires {
			x.altFromSpec(r.E, env, 0)
		}
		for _, r := range c.Requires {
			cond := x.evalSpec(r.E, env)
			x.fact(cond.T)
			// named model values for replay
			_ = r
		}
		for _, ri := range c.ReplayIn {
			v := x.evalSpec(ri.E, env)
			if v.K == KScalar {
				x.modelVals = append(x.modelVals, v.T)
				x.modelLbl[v.T] = ri.Name
			} else if v.K == KSlice {
				x.modelVals = append(x.modelVals, v.Len)
				x.modelLbl[v.Len] = ri.Name
			}
		}
		for _, rb := range c.ReplayBd {
			v := x.evalSpec(rb, env)
			x.replayBounds = append(x.replayBounds, v.T)
		}
		// vacuity: the precondition must be satisfiable
		o := x.addObl("cover:requires-satisfiable", "", "", "true", "true")
		o.Expect = "sat"
	}
	if c != nil {
		x.structuralObligations(fn, c)
	}
	if c != nil && c.StructuralOnly == "" && c.Trusted != "" && len(c.Checks) == 0 && c.hasStructural() {
		c.StructuralOnly = "trusted: " + c.Trusted
	}
	if c != nil && c.StructuralOnly != "" {
		// the body is outside the engine's subset (reason given in the contract): only the structural obligations are decided
		x.externs[fmt.Sprintf("body of %s not executed symbolically (%s): structural obligations only", fnKeyShort(fn), c.StructuralOnly)] = true
		return fres
	}
	_, _, rr := x.runFunc(fn, args, binds, st, "true", 0, true)
	if c != nil {
		o := x.addObl("cover:exit-reachable", "", "", "true", rr)
		o.Expect = "sat"
	}
	return fres
}

// allocatedFact: references reachable at entry are allocated.
func (x *VC) allocatedFact(v *Val, st *State) {
	if v.K != KScalar || v.GT == nil {
		return
	}
	switch v.GT.Underlying().(type) {
	case *types.Pointer, *types.Map, *types.Chan:
		x.fact(sOr(sEq(v.T, "0"), sSel(x.get(st, x.allocComp()), v.T)))
	case *types.Interface:
		x.fact(sOr(sEq(v.T, "0"), sSel(x.get(st, x.allocComp()), v.T), sNot(x.isPtrTag(v.T))))
	}
}

// isPtrTag: dynamic type is one of the pointer types known so far (boxed scalars are never "allocated").
func (x *VC) isPtrTag(t string) string { return "(ptrtag (dtype " + t + "))" }

// assumeAxioms adds the statements of the axioms / lemmas the contract `uses`.
func (e *Engine) assumeAxioms(x *VC, env *SEnv) {
	if x.c == nil {
		return
	}
	for _, u := range x.c.Uses {
		lm := e.db.Lemmas[u]
		if lm == nil {
			x.refuse("uses %s: unknown lemma or axiom", u)
		}
		le := &SEnv{x: x, vars: map[string]*Val{}, cur: env.cur, old: env.cur, pkg: e.pkgByPath(lm.Pkg)}
		if le.pkg == nil {
			le.pkg = env.pkg
		}
		// quantified statement: emitted directly (bound variables are its own)
		x.noName++
		x.specMode++
		t := x.ev(lm.E, le).T
		x.noName--
		x.specMode--
		if x.axiomLine == nil {
			x.axiomLine = map[string]bool{}
		}
		x.axiomLine["(assert "+t+")"] = true
		x.emit("(assert " + t + ")")
		if lm.Axiom {
			x.externs["axiom "+lm.Name] = true
		} else {
			x.lemmasUse[lm.Name] = true
		}
	}
}

// verifyLemma proves a pure lemma from the axioms / lemmas it lists.
func (e *Engine) verifyLemma(lm *Lemma, anyFn *ssa.Function) *FuncResult {
	x := newVC(e, anyFn, nil)
	x.lemmaName = lm.Name
	fres := &FuncResult{Key: "lemma " + lm.Name, VC: x, Mode: "math", IsLemma: true}
	defer func() {
		if r := recover(); r != nil {
			if rf, ok := r.(refusal); ok {
				fres.Refused = rf.msg
			} else {
				fres.Refused = fmt.Sprintf("engine panic: %v\n%s", r, debug.Stack())
			}
		}
		fres.Obls = x.obls
		for k := range x.externs {
			if !strings.HasPrefix(k, "decl:") {
				fres.Externs = append(fres.Externs, k)
			}
		}
		sort.Strings(fres.Externs)
	}()
	st := &State{ep: &Epoch{id: 0, kind: "base"}, H: map[string]string{}, C: map[*ssa.Alloc]*Val{}}
	env := &SEnv{x: x, vars: map[string]*Val{}, cur: st, old: st, pkg: e.pkgByPath(lm.Pkg)}
	for _, u := range lm.Using {
		um := e.db.Lemmas[u]
		if um == nil {
			x.refuse("lemma %s uses unknown %s", lm.Name, u)
		}
		ue := &SEnv{x: x, vars: map[string]*Val{}, cur: st, old: st, pkg: e.pkgByPath(um.Pkg)}
		x.noName++
		x.specMode++
		t := x.ev(um.E, ue).T
		x.noName--
		x.specMode--
		x.emit("(assert " + t + ")")
		if um.Axiom {
			x.externs["axiom "+um.Name] = true
		}
	}
	// Skolemise the lemma's outer universal quantifier and instantiate the axioms it uses on the
	// ground arguments of uninterpreted functions in the goal (solvers do not reliably combine
	// quantifier instantiation with the theory of strings).
	goalE := lm.E
	if goalE.Op == "forall" {
		env.bound = map[string]*Val{}
		for _, qv := range goalE.Vars {
			if qv.In != nil {
				x.refuse("lemma %s: element quantification at top level", lm.Name)
			}
			var v *Val
			switch qv.Type {
			case "int":
				v = &Val{K: KScalar, T: x.declare("sk_"+qv.Name, x.idxSort()), S: x.idxSort(), GT: tInt}
			case "mathint":
				v = &Val{K: KScalar, T: x.declare("sk_"+qv.Name, "Int"), S: "Int", GT: types.Typ[types.UntypedInt]}
			default:
				t := x.resolveType(qv.Type, env.pkg)
				v = &Val{K: KScalar, T: x.declare("sk_"+qv.Name, x.sortOf(t)), S: x.sortOf(t), GT: t}
				x.fact(x.typeRange(v.T, t))
			}
			env.bound[qv.Name] = v
		}
		goalE = goalE.Args[0]
	}
	x.noName++
	x.specMode++
	goal := x.ev(goalE, env).T
	x.noName--
	x.specMode--
	// explicit applications
	for _, ap := range lm.Apply {
		um := e.db.Lemmas[ap.Args[0].Name]
		if um == nil || um.E.Op != "forall" || len(um.E.Vars) != len(ap.Args)-1 {
			x.refuse("lemma %s: bad application of %s", lm.Name, ap.Args[0].Name)
		}
		used := false
		for _, u := range lm.Using {
			used = used || u == um.Name
		}
		if !used {
			x.refuse("lemma %s applies %s without listing it under using", lm.Name, um.Name)
		}
		ue := &SEnv{x: x, vars: map[string]*Val{}, cur: st, old: st, pkg: e.pkgByPath(um.Pkg), bound: map[string]*Val{}}
		x.noName++
		x.specMode++
		for i, qv := range um.E.Vars {
			ue.bound[qv.Name] = x.ev(ap.Args[i+1], env)
		}
		t := x.ev(um.E.Args[0], ue).T
		x.noName--
		x.specMode--
		x.emit("(assert " + t + ")")
	}
	// ground instantiation of the used axioms
	var cands []string
	seenC := map[string]bool{}
	for _, m := range regexp.MustCompile(`\(dec ([A-Za-z_!$0-9]+)\)`).FindAllStringSubmatch(goal, -1) {
		if !seenC[m[1]] {
			seenC[m[1]] = true
			cands = append(cands, m[1])
		}
	}
	for _, u := range lm.Using {
		um := e.db.Lemmas[u]
		if um == nil || um.E.Op != "forall" || len(um.E.Vars) > 2 || len(cands) == 0 || len(cands) > 12 {
			continue
		}
		ue := &SEnv{x: x, vars: map[string]*Val{}, cur: st, old: st, pkg: e.pkgByPath(um.Pkg)}
		var rec func(i int, b map[string]*Val)
		rec = func(i int, b map[string]*Val) {
			if i == len(um.E.Vars) {
				ue.bound = b
				x.noName++
				x.specMode++
				t := x.ev(um.E.Args[0], ue).T
				x.noName--
				x.specMode--
				x.emit("(assert " + t + ")")
				return
			}
			for _, c := range cands {
				nb := map[string]*Val{}
				for k, v := range b {
					nb[k] = v
				}
				nb[um.E.Vars[i].Name] = &Val{K: KScalar, T: c, S: "Int", GT: types.Typ[types.UntypedInt]}
				rec(i+1, nb)
			}
		}
		rec(0, map[string]*Val{})
	}
	o := x.addObl("lemma", lm.Name, fmt.Sprintf("%s:%d", filepath.Base(lm.File), lm.Line), "true", goal)
	if o != nil {
		o.Note = lm.Src
	}
	return fres
}

// ---- discharge ------------------------------------------------------------------

type DischargeStats struct {
	Total, Discharged, Failed, Undecided, CoversOK, CoversBad int
}

func dischargeAll(frs []*FuncResult, toSec int, par int, wantAll bool) {
	type job struct {
		x *VC
		o *Oblig
	}
	var jobs []job
	for _, fr := range frs {
		for _, o := range fr.Obls {
			jobs = append(jobs, job{fr.VC, o})
		}
	}
	ch := make(chan job)
	var wg sync.WaitGroup
	for i := 0; i < par; i++ {
		wg.Add(1)
		go func() {
			defer wg.Done()
			for j := range ch {
				dischargeOne(j.x, j.o, toSec, wantAll)
			}
		}()
	}
	for _, j := range jobs {
		ch <- j
	}
	close(ch)
	wg.Wait()
	// second chance for obligations that came back undecided (solver timing under load is not a verdict):
	// rerun them a few at a time with a longer limit
	var retry []job
	for _, j := range jobs {
		if j.o.Expect == "unsat" && (j.o.Result.Status == "unknown" || j.o.Result.Status == "timeout" || j.o.Result.Status == "error") {
			retry = append(retry, j)
		}
	}
	// round 2: 3x the limit, three at a time, another seed; round 3 (at most nine obligations left): 6x the limit, a third seed.
	// Only a verdict (unsat / sat) ends the rounds for an obligation; a genuine failure therefore costs minutes,
	// an unlucky search or a loaded machine does not cost a false alarm.
	rounds := []struct {
		mult, par int
		seed      int64
	}{{3, 3, 7}, {6, 3, 31}}
	if os.Getenv("GOVC_NORETRY") != "" {
		rounds = nil // development runs: report the first answer
	} else if os.Getenv("GOVC_ROUNDS") == "1" {
		rounds = rounds[:1] // evaluation of seeded changes: one retry round is enough to tell a slow search from a failure
	}
	for ri, rd := range rounds {
		if len(retry) == 0 || len(retry) > 40 || (ri == 1 && len(retry) > 9) {
			break
		}
		solverSeed.Store(rd.seed)
		ch2 := make(chan job)
		var wg2 sync.WaitGroup
		for i := 0; i < rd.par; i++ {
			wg2.Add(1)
			go func() {
				defer wg2.Done()
				for j := range ch2 {
					first := j.o.Result
					dischargeOne(j.x, j.o, toSec*rd.mult, wantAll)
					if j.o.Result.Status != "unsat" && j.o.Result.Status != "sat" {
						j.o.Result = first
					} else {
						j.o.Retried = rd.mult
					}
				}
			}()
		}
		for _, j := range retry {
			ch2 <- j
		}
		close(ch2)
		wg2.Wait()
		solverSeed.Store(0)
		var still []job
		for _, j := range retry {
			if j.o.Result.Status != "unsat" && j.o.Result.Status != "sat" {
				still = append(still, j)
			}
		}
		retry = still
	}
}

func dischargeOne(x *VC, o *Oblig, toSec int, wantAll bool) {
	// trivial cases without a solver call
	if o.Expect == "unsat" && (o.Cond == "true" || o.Guard == "false") {
		o.Result = SolverResult{Status: "unsat", Backend: "trivial"}
		return
	}
	script := x.scriptFor(o)
	o.Script = script
	var gv []string
	if o.Expect == "unsat" {
		gv = x.modelVals
	}
	t := toSec
	if o.Expect == "sat" && t > 3 {
		t = 3
	}
	o.Result, o.All = runSolvers(script, gv, t, wantAll)
	if o.ok() {
		o.Script = "" // keep memory small
	}
}

func (o *Oblig) ok() bool {
	if o.Expect == "sat" {
		return o.Result.Status == "sat"
	}
	return o.Result.Status == "unsat"
}

// altFromSpec narrows the possible dynamic types of parameters from conjuncts `p.(T)` of
// the precondition (after expanding preds), so that dispatch on them is pruned syntactically.
func (x *VC) altFromSpec(e *SExpr, env *SEnv, depth int) {
	if e == nil || depth > 6 {
		return
	}
	switch e.Op {
	case "bin":
		if e.Name == "&&" {
			x.altFromSpec(e.Args[0], env, depth)
			x.altFromSpec(e.Args[1], env, depth)
		}
	case "typeis":
		if e.Args[0].Op == "id" {
			if v, ok := env.vars[e.Args[0].Name]; ok && v.K == KScalar {
				t := x.resolveType(e.Name, env.pkg)
				if _, isI := t.Underlying().(*types.Interface); !isI {
					nv := *v
					nv.Alt = []types.Type{t}
					*v = nv
				}
			}
		}
	case "call":
		if e.Args[0].Op == "id" {
			if p, ok := x.eng.db.Preds[e.Args[0].Name]; ok && len(p.Params) == len(e.Args)-1 {
				ne := &SEnv{x: x, vars: map[string]*Val{}, cur: env.cur, old: env.old, pkg: x.eng.pkgByPath(p.Pkg)}
				if ne.pkg == nil {
					ne.pkg = env.pkg
				}
				for i, prm := range p.Params {
					a := e.Args[i+1]
					if a.Op == "id" {
						if v, ok := env.vars[a.Name]; ok {
							ne.vars[prm.Name] = v
						}
					}
				}
				x.altFromSpec(p.Body, ne, depth+1)
			}
		}
	}
}

func modeName(x *VC) string {
	if x.wrap {
		return "wrap (Int with exact modular arithmetic)"
	}
	if x.mode == "math" && x.noOvf {
		return "math (overflow assumed away)"
	}
	return x.mode
}

// structuralObligations: `recovers` (the function itself calls the builtin recover, so that it stops a panic
// when it runs deferred) and `defers f` (the function defers f in its entry block, i.e. on every path).
func (x *VC) structuralObligations(fn *ssa.Function, c *Contract) {
	if c.Recovers {
		found := false
		for _, b := range fn.Blocks {
			for _, ins := range b.Instrs {
				if call, ok := ins.(*ssa.Call); ok {
					if bi, ok := call.Call.Value.(*ssa.Builtin); ok && bi.Name() == "recover" {
						found = true
					}
				}
			}
		}
		cond := "false"
		if found {
			cond = "true"
		}
		if o := x.addObl("recovers", "calls recover() directly", "", "true", cond); o != nil {
			o.Note = "recover() stops a panic only when called directly by the deferred function"
		}
	}
	for _, ab := range c.CallsAfter {
		isCallOf := func(ins ssa.Instruction, name string) bool {
			var cc *ssa.CallCommon
			switch ci := ins.(type) {
			case *ssa.Call:
				cc = &ci.Call
			case *ssa.Defer:
				cc = &ci.Call
			case *ssa.Go:
				cc = &ci.Call
			default:
				return false
			}
			if cc.IsInvoke() {
				return cc.Method.Name() == name
			}
			if callee := cc.StaticCallee(); callee != nil {
				return callee.Name() == name || strings.HasSuffix(callee.String(), name)
			}
			return false
		}
		ok, sawB := true, false
		for _, b := range fn.Blocks {
			for i, ins := range b.Instrs {
				if !isCallOf(ins, ab[1]) {
					continue
				}
				sawB = true
				found := false
				for _, prev := range b.Instrs[:i] {
					if isCallOf(prev, ab[0]) {
						found = true
					}
				}
				for _, d := range fn.Blocks {
					if found || d == b || !d.Dominates(b) {
						continue
					}
					for _, di := range d.Instrs {
						if isCallOf(di, ab[0]) {
							found = true
						}
					}
				}
				if !found {
					ok = false
				}
			}
		}
		cond := "false"
		if ok && sawB {
			cond = "true"
		}
		x.addObl("calls-after", ab[1]+" only after "+ab[0], "", "true", cond)
	}
	for _, want := range c.CallsInEntry {
		cond := "false"
		if len(fn.Blocks) > 0 {
			for _, ins := range fn.Blocks[0].Instrs {
				if ci, ok := ins.(*ssa.Call); ok {
					if callee := ci.Call.StaticCallee(); callee != nil && (callee.RelString(fn.Pkg.Pkg) == want || strings.HasSuffix(callee.String(), want)) {
						cond = "true"
					}
				}
			}
		}
		x.addObl("calls-in-entry", want, "", "true", cond)
	}
	for _, want := range c.AlwaysCalls {
		isCall := func(ins ssa.Instruction) bool {
			ci, ok := ins.(*ssa.Call)
			if !ok {
				return false
			}
			if ci.Call.IsInvoke() {
				return ci.Call.Method.Name() == want
			}
			if callee := ci.Call.StaticCallee(); callee != nil {
				return callee.Name() == want || strings.HasSuffix(callee.String(), want)
			}
			return false
		}
		ok := len(fn.Blocks) > 0
		for _, b := range fn.Blocks {
			isRet := false
			for _, ins := range b.Instrs {
				if _, r := ins.(*ssa.Return); r {
					isRet = true
				}
			}
			if !isRet {
				continue
			}
			found := false
			for _, d := range fn.Blocks {
				if d != b && !d.Dominates(b) {
					continue
				}
				for _, ins := range d.Instrs {
					if isCall(ins) {
						found = true
					}
				}
			}
			if !found {
				ok = false
			}
		}
		cond := "false"
		if ok {
			cond = "true"
		}
		if o := x.addObl("always-calls", "every return follows a call of "+want, "", "true", cond); o != nil {
			o.Note = "no path may return without having called " + want
		}
	}
	if c.AlwaysSends {
		// every return of the function is dominated by a channel send made by the function itself (an unconditional,
		// blocking `ch <- v`; a send inside `select`, in a callee or in a goroutine does not count)
		ok := len(fn.Blocks) > 0
		for _, b := range fn.Blocks {
			isRet := false
			for _, ins := range b.Instrs {
				if _, r := ins.(*ssa.Return); r {
					isRet = true
				}
			}
			if !isRet {
				continue
			}
			found := false
			for _, d := range fn.Blocks {
				if d != b && !d.Dominates(b) {
					continue
				}
				for _, ins := range d.Instrs {
					if _, sd := ins.(*ssa.Send); sd {
						found = true
					}
				}
			}
			if !found {
				ok = false
			}
		}
		cond := "false"
		if ok {
			cond = "true"
		}
		if o := x.addObl("always-sends", "every return follows a blocking channel send of the function itself", "", "true", cond); o != nil {
			o.Note = "a message that arrives must be handed on: no path may return without an unconditional send"
		}
	}
	for _, cf := range c.ClosureFirst {
		n, _ := strconv.Atoi(cf[0])
		cond := "false"
		if n >= 1 && n <= len(fn.AnonFuncs) {
			af := fn.AnonFuncs[n-1]
			if len(af.Blocks) > 0 {
			scan:
				for _, ins := range af.Blocks[0].Instrs {
					switch ci := ins.(type) {
					case *ssa.Call:
						if _, isBuiltin := ci.Call.Value.(*ssa.Builtin); isBuiltin {
							continue
						}
						if callee := ci.Call.StaticCallee(); callee != nil && (callee.RelString(fn.Pkg.Pkg) == cf[1] || strings.HasSuffix(callee.String(), cf[1])) {
							cond = "true"
						}
						break scan
					case *ssa.If, *ssa.Return, *ssa.Jump, *ssa.Panic, *ssa.Go:
						break scan
					}
				}
			}
		}
		if o := x.addObl("closure-calls-first", fmt.Sprintf("%s$%s starts with %s", fn.Name(), cf[0], cf[1]), "", "true", cond); o != nil {
			o.Note = "the function literal must call " + cf[1] + " before anything that can fail, panic or return"
		}
	}
	for _, d := range c.Defers {
		found := false
		if len(fn.Blocks) > 0 {
			for _, ins := range fn.Blocks[0].Instrs {
				if df, ok := ins.(*ssa.Defer); ok {
					if callee := df.Call.StaticCallee(); callee != nil && (callee.RelString(fn.Pkg.Pkg) == d || strings.HasSuffix(callee.String(), d)) {
						found = true
					}
				}
			}
		}
		cond := "false"
		if found {
			cond = "true"
		}
		x.addObl("defers", d, "", "true", cond)
	}
}

func (c *Contract) hasStructural() bool {
	return c.Recovers || len(c.Defers) > 0 || len(c.ClosureFirst) > 0 || c.AlwaysSends || len(c.AlwaysCalls) > 0 || len(c.CallsInEntry) > 0 || len(c.CallsAfter) > 0
}
