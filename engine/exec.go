package main

// Symbolic execution of go/ssa functions into SMT obligations (passive form,
// loops cut at their headers by invariants).

import (
	"fmt"
	"go/constant"
	"go/token"
	"go/types"
	"math/big"
	"sort"
	"strings"

	"golang.org/x/tools/go/ssa"
)

type retPoint struct {
	reach string
	res   []*Val
	st    *State
}

type deferred struct {
	reach string
	call  *ssa.CallCommon
	args  []*Val
	fnv   *Val
	instr ssa.Instruction
}

type Frame struct {
	x          *VC
	fn         *ssa.Function
	vals       map[ssa.Value]*Val
	depth      int
	top        bool
	rets       []retPoint
	defers     []deferred
	binds      []*Val
	params     []*Val
	entrySt    *State // state at function entry (for old())
	loopOrd    map[*ssa.BasicBlock]int
	headers    map[*ssa.BasicBlock]bool
	reach      map[*ssa.BasicBlock]string
	out        map[*ssa.BasicBlock]*State
	econd      map[[2]int]string
	hdrDec     map[*ssa.BasicBlock]string
	hdrEnv     map[*ssa.BasicBlock]map[string]*Val
	hdrAuto    map[*ssa.BasicBlock][]string
	autoExcept map[string][]string // component key -> objects a `T.f @ obj` modifies clause lets change
}

func isBackEdge(from, to *ssa.BasicBlock) bool { return to.Dominates(from) }

// rpo computes reverse post-order over forward edges.
func rpo(fn *ssa.Function) []*ssa.BasicBlock {
	seen := map[*ssa.BasicBlock]bool{}
	var order []*ssa.BasicBlock
	var dfs func(b *ssa.BasicBlock)
	dfs = func(b *ssa.BasicBlock) {
		seen[b] = true
		for i := len(b.Succs) - 1; i >= 0; i-- {
			s := b.Succs[i]
			if isBackEdge(b, s) || seen[s] {
				continue
			}
			dfs(s)
		}
		order = append(order, b)
	}
	dfs(fn.Blocks[0])
	for i, j := 0, len(order)-1; i < j; i, j = i+1, j-1 {
		order[i], order[j] = order[j], order[i]
	}
	return order
}

func loopHeaders(fn *ssa.Function) (map[*ssa.BasicBlock]bool, map[*ssa.BasicBlock]int) {
	hs := map[*ssa.BasicBlock]bool{}
	for _, b := range fn.Blocks {
		for _, s := range b.Succs {
			if isBackEdge(b, s) {
				hs[s] = true
			}
		}
	}
	var list []*ssa.BasicBlock
	for h := range hs {
		list = append(list, h)
	}
	sort.Slice(list, func(i, j int) bool { return list[i].Index < list[j].Index })
	ord := map[*ssa.BasicBlock]int{}
	for i, h := range list {
		ord[h] = i
	}
	return hs, ord
}

// loopBody returns the natural loop of header h.
func loopBody(fn *ssa.Function, h *ssa.BasicBlock) map[*ssa.BasicBlock]bool {
	body := map[*ssa.BasicBlock]bool{h: true}
	var stack []*ssa.BasicBlock
	for _, p := range h.Preds {
		if isBackEdge(p, h) && !body[p] {
			body[p] = true
			stack = append(stack, p)
		}
	}
	for len(stack) > 0 {
		b := stack[len(stack)-1]
		stack = stack[:len(stack)-1]
		for _, p := range b.Preds {
			if !body[p] {
				body[p] = true
				stack = append(stack, p)
			}
		}
	}
	return body
}

func hasLoops(fn *ssa.Function) bool {
	for _, b := range fn.Blocks {
		for _, s := range b.Succs {
			if isBackEdge(b, s) {
				return true
			}
		}
	}
	return false
}

// runFunc executes fn symbolically. Returns the merged results, final state and
// the condition under which the function returns normally.
func (x *VC) runFunc(fn *ssa.Function, args []*Val, binds []*Val, st *State, reach string, depth int, top bool) ([]*Val, *State, string) {
	if fn.Blocks == nil {
		x.refuse("function %s has no body", fn)
	}
	if fn.TypeParams().Len() > 0 {
		x.refuse("generic function %s", fn)
	}
	fr := &Frame{x: x, fn: fn, vals: map[ssa.Value]*Val{}, depth: depth, top: top, binds: binds, params: args,
		reach: map[*ssa.BasicBlock]string{}, out: map[*ssa.BasicBlock]*State{}, econd: map[[2]int]string{},
		hdrDec: map[*ssa.BasicBlock]string{}, hdrEnv: map[*ssa.BasicBlock]map[string]*Val{}, hdrAuto: map[*ssa.BasicBlock][]string{}}
	fr.headers, fr.loopOrd = loopHeaders(fn)
	fr.entrySt = st.clone()
	for i, p := range fn.Params {
		if i < len(args) {
			fr.vals[p] = args[i]
		}
	}
	for i, fv := range fn.FreeVars {
		if i < len(binds) {
			fr.vals[fv] = binds[i]
		} else {
			x.refuse("free variable %s of %s unbound", fv.Name(), fn)
		}
	}
	order := rpo(fn)
	for _, b := range order {
		fr.execBlock(b, st, reach)
	}
	// merge return points
	if len(fr.rets) == 0 {
		return nil, st, "false"
	}
	last := fr.rets[len(fr.rets)-1]
	res := last.res
	out := last.st
	rr := last.reach
	for i := len(fr.rets) - 2; i >= 0; i-- {
		r := fr.rets[i]
		out = x.mergeStates(r.reach, r.st, out)
		nr := make([]*Val, len(res))
		for k := range res {
			nr[k] = x.mergeVals(r.reach, r.res[k], res[k])
		}
		res = nr
		rr = sOr(r.reach, rr)
	}
	rr = x.define("ret", "Bool", rr)
	return res, out, rr
}

func (fr *Frame) execBlock(b *ssa.BasicBlock, entrySt *State, entryReach string) {
	x := fr.x
	var st *State
	var reach string
	type inEdge struct {
		p    *ssa.BasicBlock
		cond string // reach_p && edge
		st   *State
		pi   int
	}
	var ins []inEdge
	if b.Index == 0 {
		st = entrySt.clone()
		reach = entryReach
	} else {
		for pi, p := range b.Preds {
			if isBackEdge(p, b) {
				continue
			}
			ps, ok := fr.out[p]
			if !ok {
				continue
			}
			c := sAnd(fr.reach[p], fr.econd[[2]int{p.Index, b.Index}])
			// a block can be its own predecessor twice (if c goto b else b)
			ins = append(ins, inEdge{p, c, ps, pi})
		}
		if len(ins) == 0 {
			return // unreachable (e.g. recover block)
		}
		var cs []string
		for _, e := range ins {
			cs = append(cs, e.cond)
		}
		reach = x.define(fmt.Sprintf("reach_%s_b%d", fr.fn.Name(), b.Index), "Bool", sOr(cs...))
		st = ins[len(ins)-1].st
		for i := len(ins) - 2; i >= 0; i-- {
			st = x.mergeStates(ins[i].cond, ins[i].st, st)
		}
		st = st.clone()
		// phis (parallel assignment: compute all, then bind)
		type pv struct {
			phi *ssa.Phi
			v   *Val
		}
		var pvs []pv
		for _, ins0 := range b.Instrs {
			phi, ok := ins0.(*ssa.Phi)
			if !ok {
				break
			}
			var v *Val
			for i := len(ins) - 1; i >= 0; i-- {
				ev := fr.value(phi.Edges[ins[i].pi])
				if v == nil {
					v = ev
				} else {
					v = x.mergeVals(ins[i].cond, ev, v)
				}
			}
			pvs = append(pvs, pv{phi, v})
		}
		for _, p := range pvs {
			fr.vals[p.phi] = p.v
		}
	}
	if fr.headers[b] {
		st, reach = fr.loopHeader(b, st, reach)
	}
	fr.reach[b] = reach
	for _, ins0 := range b.Instrs {
		if _, ok := ins0.(*ssa.Phi); ok {
			continue
		}
		x.curPos = x.posOf(ins0)
		done := fr.step(ins0, st, reach, b)
		if done {
			break
		}
	}
	fr.out[b] = st
	// back edges leaving this block
	for _, s := range b.Succs {
		if isBackEdge(b, s) && fr.headers[s] {
			fr.backEdge(b, s, st)
		}
	}
}

// value returns the symbolic value of an SSA value.
func (fr *Frame) value(v ssa.Value) *Val {
	x := fr.x
	if r, ok := fr.vals[v]; ok {
		return r
	}
	switch c := v.(type) {
	case *ssa.Const:
		return x.constVal(c)
	case *ssa.Global:
		return &Val{K: KAddr, A: &Addr{Kind: AGlobal, Glob: c, ElemT: c.Type().(*types.Pointer).Elem()}, GT: c.Type()}
	case *ssa.Function:
		return &Val{K: KClosure, Fn: c, GT: c.Type()}
	case *ssa.Builtin:
		return &Val{K: KUnit}
	}
	x.refuse("value %s (%T) used before definition in %s", v.Name(), v, fr.fn)
	return nil
}

func (x *VC) constVal(c *ssa.Const) *Val {
	t := c.Type()
	if c.Value == nil {
		return x.zero(t)
	}
	switch u := t.Underlying().(type) {
	case *types.Basic:
		switch {
		case u.Info()&types.IsBoolean != 0:
			if constant.BoolVal(c.Value) {
				return x.scalar("true", t)
			}
			return x.scalar("false", t)
		case u.Info()&types.IsInteger != 0:
			bi, ok := new(big.Int).SetString(c.Value.ExactString(), 10)
			if !ok {
				bi = big.NewInt(c.Int64())
			}
			return x.scalar(x.intLit(bi, t), t)
		case u.Info()&types.IsString != 0:
			return x.scalar(smtStringLit(constant.StringVal(c.Value)), t)
		case u.Info()&types.IsFloat != 0:
			// floats are opaque; constants become named uninterpreted values
			n := "fconst_" + sanitize(c.Value.ExactString())
			if !x.externs["decl:"+n] {
				x.externs["decl:"+n] = true
				x.script = append([]string{fmt.Sprintf("(declare-fun %s () Float)", n)}, x.script...)
				for _, o := range x.obls {
					o.Prefix++
				}
			}
			return x.scalar(n, t)
		}
	}
	x.refuse("constant of type %s", t)
	return nil
}

// step executes one instruction; returns true when the block is finished.
func (fr *Frame) step(ins0 ssa.Instruction, st *State, reach string, b *ssa.BasicBlock) bool {
	x := fr.x
	switch ins := ins0.(type) {
	case *ssa.DebugRef:
	case *ssa.Alloc:
		fr.vals[ins] = fr.alloc(ins, st, reach)
	case *ssa.FieldAddr:
		fr.vals[ins] = fr.fieldAddr(ins, fr.value(ins.X), ins.Field, st, reach)
	case *ssa.Field:
		v := fr.value(ins.X)
		if v.K != KStruct {
			x.refuse("Field on non-struct value")
		}
		fr.vals[ins] = v.Fs[ins.Field]
	case *ssa.IndexAddr:
		fr.vals[ins] = fr.indexAddr(ins, st, reach)
	case *ssa.Index:
		xv := fr.value(ins.X)
		iv := fr.value(ins.Index)
		if xv.K == KSlice {
			idx := x.toIdx(iv)
			x.addObl("safety:index", "", x.posOf(ins), reach, sAnd(x.cmpS("<=", x.ilit(0), idx), x.cmpS("<", idx, xv.Len)))
			fr.vals[ins] = x.elemVal(xv, idx, ins.Type(), st)
		} else if xv.K == KScalar && xv.S == "String" {
			x.refuse("string indexing")
		} else {
			x.refuse("Index on %v", xv.K)
		}
	case *ssa.UnOp:
		fr.vals[ins] = fr.unop(ins, st, reach)
	case *ssa.BinOp:
		fr.vals[ins] = x.binop(ins.Op, fr.value(ins.X), fr.value(ins.Y), ins.X.Type(), ins.Type(), reach, x.posOf(ins))
	case *ssa.Store:
		fr.store(fr.value(ins.Addr), fr.value(ins.Val), st, reach, x.posOf(ins))
	case *ssa.Phi:
	case *ssa.Convert:
		fr.vals[ins] = x.convert(fr.value(ins.X), ins.X.Type(), ins.Type(), reach, x.posOf(ins), st)
	case *ssa.ChangeType:
		v := *fr.value(ins.X)
		v.GT = ins.Type()
		fr.vals[ins] = &v
	case *ssa.ChangeInterface:
		v := *fr.value(ins.X)
		v.GT = ins.Type()
		fr.vals[ins] = &v
	case *ssa.MakeInterface:
		fr.vals[ins] = x.makeInterface(fr.value(ins.X), ins.X.Type(), ins.Type(), reach, st)
	case *ssa.TypeAssert:
		fr.vals[ins] = x.typeAssert(fr.value(ins.X), ins.AssertedType, ins.CommaOk, reach, x.posOf(ins), ins.Type(), st)
	case *ssa.Extract:
		t := fr.value(ins.Tuple)
		if t.K != KStruct || ins.Index >= len(t.Fs) {
			x.refuse("extract from non-tuple")
		}
		fr.vals[ins] = t.Fs[ins.Index]
	case *ssa.Lookup:
		fr.vals[ins] = fr.lookup(ins, st, reach)
	case *ssa.MapUpdate:
		m := fr.value(ins.Map)
		mt := ins.Map.Type().Underlying().(*types.Map)
		x.addObl("safety:nil-map-write", "", x.posOf(ins), reach, sNot(sEq(m.T, "0")))
		x.assume(reach, sNot(sEq(m.T, "0")))
		x.checkElemTypeInv(m.Src, fr.value(ins.Value), reach, x.posOf(ins))
		x.mapStore(st, mt, m.T, fr.value(ins.Key), fr.value(ins.Value))
	case *ssa.MakeMap:
		mt := ins.Type().Underlying().(*types.Map)
		r := x.allocRef(st, reach, "map", ins.Type())
		d, v, c := x.mapComps(mt)
		ks := x.keySort(mt)
		x.set(st, d, sStore(x.get(st, d), r, fmt.Sprintf("((as const (Array %s Bool)) false)", ks)))
		x.set(st, c, sStore(x.get(st, c), r, x.ilit(0)))
		_ = v
		fr.vals[ins] = x.scalar(r, ins.Type())
	case *ssa.MakeSlice:
		l := x.toIdx(fr.value(ins.Len))
		x.addObl("safety:makeslice-len", "", x.posOf(ins), reach, x.cmpS("<=", x.ilit(0), l))
		et := ins.Type().Underlying().(*types.Slice).Elem()
		es := x.elemSortOf(et)
		fr.vals[ins] = &Val{K: KSlice, Arr: x.constArray(es), Off: x.ilit(0), Len: l, ES: es, GT: ins.Type()}
	case *ssa.MakeChan:
		fr.vals[ins] = x.scalar(x.allocRef(st, reach, "chan", ins.Type()), ins.Type())
	case *ssa.MakeClosure:
		var bs []*Val
		for _, bv := range ins.Bindings {
			bs = append(bs, fr.value(bv))
		}
		fr.vals[ins] = &Val{K: KClosure, Fn: ins.Fn.(*ssa.Function), Bnd: bs, GT: ins.Type()}
	case *ssa.Slice:
		fr.vals[ins] = fr.sliceOp(ins, st, reach)
	case *ssa.Call:
		res := fr.call(ins, &ins.Call, st, reach)
		fr.vals[ins] = res
	case *ssa.Go:
		// goroutines are not interleaved: recorded as a ghost spawn event
		x.ghostEvt["spawned:"+calleeName(&ins.Call)]++
		{
			name := calleeName(&ins.Call)
			if mc, ok := ins.Call.Value.(*ssa.MakeClosure); ok {
				name = fnKeyShort(mc.Fn.(*ssa.Function))
			} else if f := ins.Call.StaticCallee(); f != nil {
				name = fnKeyShort(f)
			}
			c := x.comp("G|spawned:"+name, "", "Int")
			x.set(st, c, "(+ 1 "+x.get(st, c)+")")
		}
		x.note("goroutine `go %s` at %s not interleaved (recorded as spawn event)", calleeName(&ins.Call), x.posOf(ins))
		fr.spawn(ins, st, reach)
	case *ssa.Defer:
		var args []*Val
		for _, a := range ins.Call.Args {
			args = append(args, fr.value(a))
		}
		var fnv *Val
		if !ins.Call.IsInvoke() {
			if _, ok := ins.Call.Value.(*ssa.Builtin); !ok {
				fnv = fr.value(ins.Call.Value)
			}
		} else {
			fnv = fr.value(ins.Call.Value)
		}
		fr.defers = append(fr.defers, deferred{reach: reach, call: &ins.Call, args: args, fnv: fnv, instr: ins})
	case *ssa.RunDefers:
		for i := len(fr.defers) - 1; i >= 0; i-- {
			d := fr.defers[i]
			cond := x.define("dfr", "Bool", sAnd(reach, d.reach))
			pre := st.clone()
			fr.callCommon(d.instr, d.call, d.args, d.fnv, st, cond, nil)
			if d.reach != "true" && d.reach != reach {
				m := x.mergeStates(d.reach, st, pre)
				*st = *m.clone()
			}
		}
	case *ssa.Send:
		ch := fr.value(ins.Chan)
		c := x.comp("G|chan.sent", "Int", "Int")
		x.set(st, c, sStore(x.get(st, c), ch.T, "(+ 1 "+sSel(x.get(st, c), ch.T)+")"))
		x.addObl("safety:nil-chan-send", "", x.posOf(ins), reach, sNot(sEq(ch.T, "0")))
	case *ssa.Range:
		fr.vals[ins] = fr.rangeStart(ins, st, reach)
	case *ssa.Next:
		fr.vals[ins] = fr.rangeNext(ins, st, reach)
	case *ssa.Panic:
		if fr.top && x.c != nil && x.c.Trusted != "" && x.c.PanicAssumed {
			// the reason a contract is `trusted` for may be exactly that its panic(...) cannot happen: the rest of the
			// body is still checked (checks[...]), the panic site is an assumption listed in the evidence
			x.assume(reach, "false")
			x.externs[fmt.Sprintf("assumed unreachable: panic(...) in %s at %s (%s)", fnKeyShort(fr.fn), x.posOf(ins), x.c.Trusted)] = true
			return true
		}
		x.addObl("safety:explicit-panic", "", x.posOf(ins), reach, "false")
		return true
	case *ssa.Jump:
		fr.econd[[2]int{b.Index, b.Succs[0].Index}] = "true"
		return true
	case *ssa.If:
		c := fr.value(ins.Cond).T
		if b.Succs[0] == b.Succs[1] {
			fr.econd[[2]int{b.Index, b.Succs[0].Index}] = "true"
		} else {
			fr.econd[[2]int{b.Index, b.Succs[0].Index}] = c
			fr.econd[[2]int{b.Index, b.Succs[1].Index}] = sNot(c)
		}
		return true
	case *ssa.Return:
		var res []*Val
		for _, r := range ins.Results {
			res = append(res, fr.value(r))
		}
		if fr.top {
			x.checkEnsures(fr, res, st, reach, x.posOf(ins))
		}
		fr.rets = append(fr.rets, retPoint{reach, res, st})
		return true
	default:
		x.refuse("unsupported instruction %T (%s) in %s", ins0, ins0, fr.fn)
	}
	return false
}

func (x *VC) note(f string, a ...interface{}) {
	s := fmt.Sprintf(f, a...)
	for _, n := range x.notes {
		if n == s {
			return
		}
	}
	x.notes = append(x.notes, s)
}

func calleeName(c *ssa.CallCommon) string {
	if c.IsInvoke() {
		return c.Method.FullName()
	}
	if f := c.StaticCallee(); f != nil {
		return f.String()
	}
	return c.Value.Name()
}

// ---- allocation ------------------------------------------------------------

func cellLike(a *ssa.Alloc) bool {
	et := a.Type().(*types.Pointer).Elem()
	_, isArr := et.Underlying().(*types.Array)
	var ok func(v ssa.Value, depth int) bool
	ok = func(v ssa.Value, depth int) bool {
		refs := v.Referrers()
		if refs == nil {
			return false
		}
		for _, r := range *refs {
			switch r := r.(type) {
			case *ssa.Store:
				if r.Val == v {
					return false
				}
			case *ssa.UnOp:
				if r.Op != token.MUL {
					return false
				}
			case *ssa.MakeClosure:
			case *ssa.DebugRef:
			case *ssa.FieldAddr:
				if !ok(r, depth+1) {
					return false
				}
			case *ssa.IndexAddr:
				if !ok(r, depth+1) {
					return false
				}
			case *ssa.Slice:
				if !isArr {
					return false
				}
			default:
				return false
			}
		}
		return true
	}
	return ok(a, 0)
}

func (x *VC) allocComp() *Comp { return x.comp("alloc", "Int", "Bool") }

// allocRef returns a fresh non-nil reference distinct from every allocated one.
func (x *VC) allocRef(st *State, reach, hint string, t types.Type) string {
	r := x.declare("new_"+hint, "Int")
	al := x.allocComp()
	cur := x.get(st, al)
	x.fact("(> " + r + " 0)")
	x.fact(sNot(sSel(cur, r)))
	if _, isI := t.Underlying().(*types.Interface); isI {
		// a fresh object behind an interface: its dynamic type is one of the implementers
		x.typeFacts(&Val{K: KScalar, T: r, S: "Int", GT: t}, nil)
		x.fact("(ptrtag (dtype " + r + "))")
	} else {
		x.fact(sEq("(dtype "+r+")", x.tag(t)))
		x.fact("(ptrtag " + x.tag(t) + ")")
	}
	x.set(st, al, sStore(cur, r, "true"))
	return r
}

func (fr *Frame) alloc(a *ssa.Alloc, st *State, reach string) *Val {
	x := fr.x
	et := a.Type().(*types.Pointer).Elem()
	if cellLike(a) {
		st.C[a] = x.zero(et)
		if x.writeLog != nil {
			x.writeLog["cell:"+a.Name()] = true
		}
		return &Val{K: KAddr, A: &Addr{Kind: ACell, Cell: a, ElemT: et}, GT: a.Type()}
	}
	switch u := et.Underlying().(type) {
	case *types.Struct:
		r := x.allocRef(st, reach, a.Comment, a.Type())
		// fields of a fresh object are zero
		x.zeroFields(st, r, et, u, nil, nil)
		return x.scalar(r, a.Type())
	case *types.Array:
		x.refuse("escaping array allocation in %s", fr.fn)
	}
	// pointer to scalar
	r := x.allocRef(st, reach, a.Comment, a.Type())
	ad := &Addr{Kind: ADeref, Base: r, ElemT: et}
	x.storeAddr(ad, x.zero(et), st)
	return x.scalar(r, a.Type())
}

func (x *VC) zeroFields(st *State, r string, owner types.Type, u *types.Struct, path []int, names []string) {
	for i := 0; i < u.NumFields(); i++ {
		f := u.Field(i)
		p := append(append([]int{}, path...), i)
		n := append(append([]string{}, names...), f.Name())
		if su, ok := f.Type().Underlying().(*types.Struct); ok {
			x.zeroFields(st, r, owner, su, p, n)
			continue
		}
		ad := &Addr{Kind: AField, Base: r, Owner: owner, Path: p, PathN: n, ElemT: f.Type()}
		// facts about unallocated objects: all fields are zero (heap-model invariant)
		x.assumeZeroAt(ad, st)
	}
	if shortTypeFull(owner) == "strings.Builder" {
		c := x.comp("F|strings.Builder|$content", "Int", "String")
		x.fact(sEq(sSel(x.get(st, c), r), `""`))
	}
	// ghost fields
	for _, g := range x.eng.db.Ghosts {
		if tn := namedOf(owner); tn != nil && tn.Obj().Name() == g.Type {
			c := x.ghostComp(tn, g)
			x.fact(sEq(sSel(x.get(st, c), r), x.zeroOfSort(c.Elem)))
		}
	}
}

func namedOf(t types.Type) *types.Named {
	t = types.Unalias(t)
	if p, ok := t.(*types.Pointer); ok {
		t = types.Unalias(p.Elem())
	}
	n, _ := t.(*types.Named)
	return n
}

func (x *VC) assumeZeroAt(ad *Addr, st *State) {
	z := x.zero(ad.ElemT)
	switch z.K {
	case KScalar:
		c := x.fieldComp(ad, "")
		x.fact(sEq(sSel(x.get(st, c), ad.Base), z.T))
	case KSlice:
		c := x.fieldComp(ad, "#len")
		x.fact(sEq(sSel(x.get(st, c), ad.Base), x.ilit(0)))
	}
}

// ---- addresses ---------------------------------------------------------------

func (x *VC) fieldComp(ad *Addr, suffix string) *Comp {
	key := "F|" + shortTypeFull(ad.Owner) + "|" + strings.Join(ad.PathN, ".") + suffix
	var es string
	switch suffix {
	case "":
		es = x.sortOf(ad.ElemT)
		if es == "" {
			x.refuse("field %s of composite type %s accessed as scalar", key, ad.ElemT)
		}
	case "#arr":
		sl, ok := ad.ElemT.Underlying().(*types.Slice)
		if !ok {
			x.refuse("field %s is not a slice", key)
		}
		e := x.sortOf(sl.Elem())
		if e == "" {
			e = "Int"
		}
		es = fmt.Sprintf("(Array %s %s)", x.idxSort(), e)
	case "#off", "#len":
		es = x.idxSort()
	}
	return x.comp(key, "Int", es)
}

func (fr *Frame) fieldAddr(ins ssa.Instruction, base *Val, field int, st *State, reach string) *Val {
	x := fr.x
	var resT types.Type
	if v, ok := ins.(ssa.Value); ok {
		resT = v.Type()
	}
	switch base.K {
	case KScalar:
		pt, ok := base.GT.Underlying().(*types.Pointer)
		if !ok {
			x.refuse("FieldAddr on non-pointer %s", base.GT)
		}
		su := pt.Elem().Underlying().(*types.Struct)
		x.addObl("safety:nil-deref", "", x.posOf(ins), reach, sNot(sEq(base.T, "0")))
		x.assume(reach, sNot(sEq(base.T, "0")))
		f := su.Field(field)
		return &Val{K: KAddr, GT: resT, A: &Addr{Kind: AField, Base: base.T, Owner: pt.Elem(), Path: []int{field}, PathN: []string{f.Name()}, ElemT: f.Type()}}
	case KAddr:
		a := base.A
		su, ok := a.ElemT.Underlying().(*types.Struct)
		if !ok {
			x.refuse("FieldAddr through address of non-struct")
		}
		f := su.Field(field)
		na := *a
		if a.Kind == ACell && a.CIdx != "" {
			// &cell[i].f : the field path applies AFTER the index
			if x.dtSort(a.ElemT) == "" {
				x.refuse("field of an array element of unmodelled struct type %s", a.ElemT)
			}
			na.Post = append(append([]int{}, a.Post...), field)
			na.ElemT = f.Type()
			return &Val{K: KAddr, GT: resT, A: &na}
		}
		na.Path = append(append([]int{}, a.Path...), field)
		na.PathN = append(append([]string{}, a.PathN...), f.Name())
		na.ElemT = f.Type()
		if a.Kind == AIndex || a.Kind == ADeref {
			x.refuse("field of %v address", a.Kind)
		}
		return &Val{K: KAddr, GT: resT, A: &na}
	}
	x.refuse("FieldAddr on value kind %d", base.K)
	return nil
}

func (fr *Frame) indexAddr(ins *ssa.IndexAddr, st *State, reach string) *Val {
	x := fr.x
	xv := fr.value(ins.X)
	idx := x.toIdx(fr.value(ins.Index))
	et := ins.Type().(*types.Pointer).Elem()
	switch xv.K {
	case KSlice:
		x.addObl("safety:index", "", x.posOf(ins), reach, sAnd(x.cmpS("<=", x.ilit(0), idx), x.cmpS("<", idx, xv.Len)))
		x.assume(reach, sAnd(x.cmpS("<=", x.ilit(0), idx), x.cmpS("<", idx, xv.Len)))
		return &Val{K: KAddr, GT: ins.Type(), A: &Addr{Kind: AIndex, Sl: xv, Idx: idx, ElemT: et}}
	case KAddr:
		if xv.A.Kind == ACell {
			at, ok := xv.A.ElemT.Underlying().(*types.Array)
			if !ok {
				x.refuse("IndexAddr on cell of non-array")
			}
			x.addObl("safety:index", "", x.posOf(ins), reach, sAnd(x.cmpS("<=", x.ilit(0), idx), x.cmpS("<", idx, x.ilit(at.Len()))))
			na := *xv.A
			na.CIdx = idx
			na.ElemT = et
			return &Val{K: KAddr, GT: ins.Type(), A: &na}
		}
	}
	x.refuse("IndexAddr on %v in %s", xv.K, fr.fn)
	return nil
}

// load reads the value stored at an address.
func (x *VC) loadAddr(a *Addr, st *State) *Val {
	t := a.ElemT
	switch a.Kind {
	case ACell:
		v := st.C[a.Cell]
		if v == nil {
			v = x.zero(a.Cell.Type().(*types.Pointer).Elem())
			st.C[a.Cell] = v
		}
		for _, i := range a.Path {
			if v.K != KStruct {
				x.refuse("cell path into non-struct")
			}
			v = v.Fs[i]
		}
		if a.CIdx != "" {
			if v.K != KSlice {
				x.refuse("cell index into non-array")
			}
			if len(a.Post) > 0 {
				at := v.GT.Underlying().(*types.Array).Elem()
				ev := x.elemVal(v, a.CIdx, at, st)
				for _, i := range a.Post {
					if ev.K != KStruct {
						x.refuse("field path into non-struct array element")
					}
					ev = ev.Fs[i]
				}
				return ev
			}
			return x.elemVal(v, a.CIdx, t, st)
		}
		return v
	case AIndex:
		return x.elemVal(a.Sl, a.Idx, t, st)
	case AGlobal:
		gv := x.loadGlobal(a, st)
		if a.Glob != nil && a.Glob.Pkg != nil && a.Glob.Name() == "Logger" && strings.HasSuffix(a.Glob.Pkg.Pkg.Path(), "client/pkg/log") && gv.K == KScalar {
			// the package-level logger is initialised in its declaration (`var Logger = New()`) and never reassigned
			x.fact(sNot(sEq(gv.T, "0")))
			x.externs["the package-level logger client/pkg/log.Logger is not nil (initialised in its declaration)"] = true
		}
		return gv
	case ADeref:
		switch u := t.Underlying().(type) {
		case *types.Struct:
			_ = u
			x.refuse("deref of pointer to struct through scalar pointer model")
		}
		s := x.sortOf(t)
		if s == "" {
			x.refuse("pointer to composite %s", t)
		}
		c := x.comp("P|"+shortTypeFull(t), "Int", s)
		v := x.scalar(x.define("ld", s, sSel(x.get(st, c), a.Base)), t)
		x.typeFacts(v, st)
		return v
	case AField:
		switch u := t.Underlying().(type) {
		case *types.Struct:
			v := &Val{K: KStruct, GT: t}
			for i := 0; i < u.NumFields(); i++ {
				na := *a
				na.Path = append(append([]int{}, a.Path...), i)
				na.PathN = append(append([]string{}, a.PathN...), u.Field(i).Name())
				na.ElemT = u.Field(i).Type()
				v.Fs = append(v.Fs, x.loadAddr(&na, st))
			}
			return v
		case *types.Slice:
			es := x.elemSortOf(u.Elem())
			v := &Val{K: KSlice, ES: es, GT: t}
			v.Arr = x.define("ldarr", fmt.Sprintf("(Array %s %s)", x.idxSort(), es), sSel(x.get(st, x.fieldComp(a, "#arr")), a.Base))
			v.Off = x.define("ldoff", x.idxSort(), sSel(x.get(st, x.fieldComp(a, "#off")), a.Base))
			v.Len = x.define("ldlen", x.idxSort(), sSel(x.get(st, x.fieldComp(a, "#len")), a.Base))
			x.fact(sAnd(x.cmpS("<=", x.ilit(0), v.Len), x.cmpS("<=", x.ilit(0), v.Off)))
			if x.mode == "math" {
				x.fact("(<= " + v.Len + " 4611686018427387904)")
				x.fact("(<= " + v.Off + " 4611686018427387904)")
				// present the slice with offset 0 (a shifted copy of the backing array): element accesses become
				// (select arr0 i), which quantified specifications can use as a trigger; (select arr (+ off i)) cannot
				key := sSel(x.get(st, x.fieldComp(a, "#arr")), a.Base) + "|" + sSel(x.get(st, x.fieldComp(a, "#off")), a.Base)
				if x.shifted == nil {
					x.shifted = map[string]string{}
				}
				a0, ok := x.shifted[key]
				if !ok && x.noName > 0 {
					return v // inside a quantified specification no constant can be introduced: keep (arr, off)
				}
				if !ok {
					a0 = x.declare("ldarr0", fmt.Sprintf("(Array Int %s)", es))
					x.fact(fmt.Sprintf("(forall ((i Int)) (! (= (select %s i) (select %s (+ %s i))) :pattern ((select %s i))))", a0, v.Arr, v.Off, a0))
					x.shifted[key] = a0
				}
				v.RawArr, v.RawOff = v.Arr, v.Off
				v.Arr, v.Off = a0, x.ilit(0)
			}
			return v
		case *types.Array:
			x.refuse("array-typed field")
		}
		c := x.fieldComp(a, "")
		v := x.scalar(x.define("ld_"+a.PathN[len(a.PathN)-1], c.Elem, sSel(x.get(st, c), a.Base)), t)
		x.typeFacts(v, st)
		x.typeInvFacts(a, v)
		if n := namedOf(a.Owner); n != nil && len(a.PathN) == 1 {
			v.Src = n.Obj().Name() + "." + a.PathN[0]
		}
		return v
	}
	x.refuse("load from unknown address kind")
	return nil
}

func (x *VC) loadGlobal(a *Addr, st *State) *Val {
	g := a.Glob
	t := a.ElemT
	s := x.sortOf(t)
	if s == "" {
		x.refuse("composite global %s", g.Name())
	}
	key := "G|" + g.Pkg.Pkg.Path() + "." + g.Name()
	if len(a.PathN) > 0 {
		key += "." + strings.Join(a.PathN, ".")
	}
	if lit, ok := x.eng.globalConst[strings.TrimPrefix(key, "G|")]; ok {
		return x.scalar(lit, t)
	}
	c := x.comp(key, "", s)
	v := x.scalar(x.get(st, c), t)
	x.typeFacts(v, st)
	return v
}

func (x *VC) elemVal(sl *Val, idx string, t types.Type, st *State) *Val {
	if t != nil {
		if dn := x.dtSort(t); dn != "" && sl.ES == dn {
			term := x.define("el", dn, sSel(sl.Arr, x.addS(sl.Off, idx)))
			return x.unpackStruct(term, t, st)
		}
	}
	s := x.sortOf(t)
	if s == "" {
		s = "Int"
	}
	term := sSel(sl.Arr, x.addS(sl.Off, idx))
	v := &Val{K: KScalar, T: x.define("el", s, term), S: s, GT: t}
	x.typeFacts(v, st)
	return v
}

func (x *VC) storeAddr(a *Addr, v *Val, st *State) {
	switch a.Kind {
	case ACell:
		cur := st.C[a.Cell]
		if cur == nil {
			cur = x.zero(a.Cell.Type().(*types.Pointer).Elem())
		}
		st.C[a.Cell] = x.updCellPost(cur, a.Path, a.CIdx, a.Post, v, st)
		if x.writeLog != nil {
			x.writeLog["cell:"+a.Cell.Name()] = true
		}
	case AIndex:
		if _, isStruct := a.ElemT.Underlying().(*types.Struct); isStruct || len(a.Path) > 0 {
			// elements of slices of structs are opaque handles in this model: the store is not tracked
			x.note("store into an element of a slice of structs (%s) is not tracked (elements are opaque)", shortType(a.ElemT))
			return
		}
		x.refuse("store through slice element (aliasing not modelled)")
	case AGlobal:
		s := x.sortOf(a.ElemT)
		if s == "" {
			x.refuse("store to composite global")
		}
		key := "G|" + a.Glob.Pkg.Pkg.Path() + "." + a.Glob.Name()
		c := x.comp(key, "", s)
		x.set(st, c, v.T)
	case ADeref:
		s := x.sortOf(a.ElemT)
		if s == "" {
			x.refuse("store through pointer to composite %s", a.ElemT)
		}
		c := x.comp("P|"+shortTypeFull(a.ElemT), "Int", s)
		x.set(st, c, sStore(x.get(st, c), a.Base, v.T))
	case AField:
		switch u := a.ElemT.Underlying().(type) {
		case *types.Struct:
			if v.K != KStruct {
				x.refuse("struct store of non-struct value")
			}
			for i := 0; i < u.NumFields(); i++ {
				na := *a
				na.Path = append(append([]int{}, a.Path...), i)
				na.PathN = append(append([]string{}, a.PathN...), u.Field(i).Name())
				na.ElemT = u.Field(i).Type()
				x.storeAddr(&na, v.Fs[i], st)
			}
			return
		case *types.Slice:
			if v.K != KSlice {
				x.refuse("slice store of non-slice value")
			}
			ca, co, cl := x.fieldComp(a, "#arr"), x.fieldComp(a, "#off"), x.fieldComp(a, "#len")
			// a slice presented at offset 0 is stored as the (backing array, offset) it stands for
			sa, so := v.Arr, v.Off
			if v.RawArr != "" {
				sa, so = v.RawArr, v.RawOff
			}
			x.set(st, ca, sStore(x.get(st, ca), a.Base, sa))
			x.set(st, co, sStore(x.get(st, co), a.Base, so))
			x.set(st, cl, sStore(x.get(st, cl), a.Base, v.Len))
			return
		}
		if v.K != KScalar {
			x.refuse("scalar store of composite value into %s", strings.Join(a.PathN, "."))
		}
		c := x.fieldComp(a, "")
		x.set(st, c, sStore(x.get(st, c), a.Base, v.T))
	}
}

// updCellPost: like updCell, with a field path applied after the array index (&cell[i].f = v)
func (x *VC) updCellPost(cur *Val, path []int, cidx string, post []int, v *Val, st *State) *Val {
	if len(post) == 0 || cidx == "" {
		return x.updCell(cur, path, cidx, v)
	}
	if len(path) > 0 {
		if cur.K != KStruct {
			x.refuse("cell path store into non-struct")
		}
		n := &Val{K: KStruct, GT: cur.GT, Fs: append([]*Val{}, cur.Fs...)}
		n.Fs[path[0]] = x.updCellPost(cur.Fs[path[0]], path[1:], cidx, post, v, st)
		return n
	}
	if cur.K != KSlice {
		x.refuse("indexed cell store into non-array")
	}
	at := cur.GT.Underlying().(*types.Array).Elem()
	ev := x.elemVal(cur, cidx, at, st)
	var upd func(e *Val, p []int) *Val
	upd = func(e *Val, p []int) *Val {
		if len(p) == 0 {
			return v
		}
		if e.K != KStruct {
			x.refuse("field path into non-struct array element")
		}
		n := &Val{K: KStruct, GT: e.GT, Fs: append([]*Val{}, e.Fs...)}
		n.Fs[p[0]] = upd(e.Fs[p[0]], p[1:])
		return n
	}
	return x.updCell(cur, nil, cidx, upd(ev, post))
}

func (x *VC) updCell(cur *Val, path []int, cidx string, v *Val) *Val {
	if len(path) == 0 {
		if cidx != "" {
			if cur.K != KSlice {
				x.refuse("indexed cell store into non-array")
			}
			if v.K == KStruct && x.dtSort(v.GT) != "" && cur.ES == x.dtSort(v.GT) {
				v = &Val{K: KScalar, T: x.packStruct(v), S: cur.ES, GT: v.GT}
			}
			if v.K != KScalar {
				x.refuse("array cell element of composite type")
			}
			n := *cur
			n.Arr = x.define("carr", fmt.Sprintf("(Array %s %s)", x.idxSort(), cur.ES), sStore(cur.Arr, x.addS(cur.Off, cidx), v.T))
			return &n
		}
		return v
	}
	if cur.K != KStruct {
		x.refuse("cell path store into non-struct")
	}
	n := &Val{K: KStruct, GT: cur.GT, Fs: append([]*Val{}, cur.Fs...)}
	n.Fs[path[0]] = x.updCell(cur.Fs[path[0]], path[1:], cidx, v)
	return n
}

func (fr *Frame) store(addr, v *Val, st *State, reach, pos string) {
	x := fr.x
	switch addr.K {
	case KAddr:
		if addr.A.Kind == AField {
			x.checkTypeInv(addr.A, v, reach, pos)
			if key := "F|" + shortTypeFull(addr.A.Owner) + "|" + strings.Join(addr.A.PathN, "."); x.immutableComp(key) && x.specMode == 0 {
				// only objects allocated by this very call may have their immutable fields initialised
				x.addObl("immutable-field-store", namedOf(addr.A.Owner).Obj().Name()+"."+strings.Join(addr.A.PathN, "."), pos, reach,
					sNot(sSel(x.get(x.entry, x.allocComp()), addr.A.Base)))
			}
		}
		x.storeAddr(addr.A, v, st)
	case KScalar:
		// store through a pointer value
		pt, ok := addr.GT.Underlying().(*types.Pointer)
		if !ok {
			x.refuse("store through non-pointer")
		}
		x.addObl("safety:nil-deref", "", pos, reach, sNot(sEq(addr.T, "0")))
		x.assume(reach, sNot(sEq(addr.T, "0")))
		if su, ok := pt.Elem().Underlying().(*types.Struct); ok {
			if v.K != KStruct {
				x.refuse("struct store of non-struct")
			}
			for i := 0; i < su.NumFields(); i++ {
				a := &Addr{Kind: AField, Base: addr.T, Owner: pt.Elem(), Path: []int{i}, PathN: []string{su.Field(i).Name()}, ElemT: su.Field(i).Type()}
				x.storeAddr(a, v.Fs[i], st)
			}
			return
		}
		x.storeAddr(&Addr{Kind: ADeref, Base: addr.T, ElemT: pt.Elem()}, v, st)
	default:
		x.refuse("store to value kind %d", addr.K)
	}
}

func (fr *Frame) unop(ins *ssa.UnOp, st *State, reach string) *Val {
	x := fr.x
	v := fr.value(ins.X)
	switch ins.Op {
	case token.MUL:
		switch v.K {
		case KAddr:
			return x.loadAddr(v.A, st)
		case KScalar:
			pt, ok := v.GT.Underlying().(*types.Pointer)
			if !ok {
				x.refuse("deref of non-pointer %s", v.GT)
			}
			x.addObl("safety:nil-deref", "", x.posOf(ins), reach, sNot(sEq(v.T, "0")))
			x.assume(reach, sNot(sEq(v.T, "0")))
			if su, ok := pt.Elem().Underlying().(*types.Struct); ok {
				r := &Val{K: KStruct, GT: pt.Elem()}
				for i := 0; i < su.NumFields(); i++ {
					a := &Addr{Kind: AField, Base: v.T, Owner: pt.Elem(), Path: []int{i}, PathN: []string{su.Field(i).Name()}, ElemT: su.Field(i).Type()}
					r.Fs = append(r.Fs, x.loadAddr(a, st))
				}
				return r
			}
			return x.loadAddr(&Addr{Kind: ADeref, Base: v.T, ElemT: pt.Elem()}, st)
		}
		x.refuse("deref of value kind %d", v.K)
	case token.NOT:
		return bval(sNot(v.T))
	case token.SUB:
		if _, ok := isIntType(ins.Type()); ok {
			if x.mode == "bv" {
				return x.scalar("(bvneg "+v.T+")", ins.Type())
			}
			if x.wrap {
				return x.scalar(x.wrapTerm("(- "+v.T+")", ins.Type(), true), ins.Type())
			}
			r := x.scalar("(- "+v.T+")", ins.Type())
			x.ovfCheck(r, reach, x.posOf(ins))
			return r
		}
		return x.fresh(ins.Type(), "fneg", reach, st)
	case token.XOR:
		if x.mode == "bv" {
			return x.scalar("(bvnot "+v.T+")", ins.Type())
		}
		x.refuse("bitwise complement in math mode")
	case token.ARROW:
		// channel receive: opaque value
		x.note("channel receive at %s treated as arbitrary value", x.posOf(ins))
		defer func() {
			// ghost: count receives and remember the last received value (for specifications)
			cn := x.comp("G|chan.recvs", "", "Int")
			x.set(st, cn, "(+ 1 "+x.get(st, cn)+")")
		}()
		if !ins.CommaOk {
			rv := x.fresh(ins.Type(), "recv", reach, st)
			if rv.K == KScalar && rv.S == "Int" {
				cl := x.comp("G|chan.lastRecv", "", "Int")
				x.set(st, cl, rv.T)
			}
			return rv
		}
		if ins.CommaOk {
			return &Val{K: KStruct, Fs: []*Val{x.fresh(ins.X.Type().Underlying().(*types.Chan).Elem(), "recv", reach, st), x.fresh(types.Typ[types.Bool], "recvok", reach, st)}}
		}
		return x.fresh(ins.Type(), "recv", reach, st)
	}
	x.refuse("unary operator %s", ins.Op)
	return nil
}

// ---- arithmetic -------------------------------------------------------------

func (x *VC) toIdx(v *Val) string {
	if x.mode == "bv" {
		b, ok := isIntType(v.GT)
		if ok {
			n, signed := x.intBits(b)
			if n < 64 {
				if signed {
					return fmt.Sprintf("((_ sign_extend %d) %s)", 64-n, v.T)
				}
				return fmt.Sprintf("((_ zero_extend %d) %s)", 64-n, v.T)
			}
		}
	}
	return v.T
}

func (x *VC) addS(a, b string) string {
	if x.mode == "bv" {
		if b == "(_ bv0 64)" {
			return a
		}
		if a == "(_ bv0 64)" {
			return b
		}
		return "(bvadd " + a + " " + b + ")"
	}
	if a == "0" {
		return b
	}
	if b == "0" {
		return a
	}
	return "(+ " + a + " " + b + ")"
}

func (x *VC) subS(a, b string) string {
	if x.mode == "bv" {
		return "(bvsub " + a + " " + b + ")"
	}
	if b == "0" {
		return a
	}
	return "(- " + a + " " + b + ")"
}

// cmpS compares two terms of the index sort (signed).
func (x *VC) cmpS(op, a, b string) string {
	if x.mode == "bv" {
		m := map[string]string{"<": "bvslt", "<=": "bvsle", ">": "bvsgt", ">=": "bvsge"}
		return "(" + m[op] + " " + a + " " + b + ")"
	}
	return "(" + op + " " + a + " " + b + ")"
}

// wrapTerm gives the exact machine result of a mathematical term t whose distance from the
// type's range is less than one period (true for + and - of in-range operands).
func (x *VC) wrapTerm(t string, ty types.Type, single bool) string {
	b, ok := isIntType(ty)
	if !ok {
		return t
	}
	n, signed := x.intBits(b)
	if n == 0 {
		return t
	}
	period := new(big.Int).Lsh(big.NewInt(1), uint(n)).String()
	var lo, hi string
	if signed {
		hi = new(big.Int).Sub(new(big.Int).Lsh(big.NewInt(1), uint(n-1)), big.NewInt(1)).String()
		lo = "(- " + new(big.Int).Lsh(big.NewInt(1), uint(n-1)).String() + ")"
	} else {
		hi = new(big.Int).Sub(new(big.Int).Lsh(big.NewInt(1), uint(n)), big.NewInt(1)).String()
		lo = "0"
	}
	if single {
		return fmt.Sprintf("(ite (> %s %s) (- %s %s) (ite (< %s %s) (+ %s %s) %s))", t, hi, t, period, t, lo, t, period, t)
	}
	u := fmt.Sprintf("(mod %s %s)", t, period)
	if signed {
		return fmt.Sprintf("(ite (> %s %s) (- %s %s) %s)", u, hi, u, period, u)
	}
	return u
}

func (x *VC) ovfCheck(r *Val, reach, pos string) {
	if x.mode != "math" || x.noOvf || x.wrap {
		return
	}
	rg := x.typeRange(r.T, r.GT)
	x.addObl("overflow", "", pos, reach, rg)
	x.assume(reach, rg)
}

func (x *VC) binop(op token.Token, a, b *Val, opT, resT types.Type, reach, pos string) *Val {
	// comparisons on composites
	if a.K == KStruct && b.K == KStruct && (op == token.EQL || op == token.NEQ) {
		var cs []string
		for i := range a.Fs {
			cs = append(cs, x.binop(token.EQL, a.Fs[i], b.Fs[i], a.Fs[i].GT, types.Typ[types.Bool], reach, pos).T)
		}
		r := sAnd(cs...)
		if op == token.NEQ {
			r = sNot(r)
		}
		return bval(r)
	}
	if a.K == KSlice || b.K == KSlice {
		// slice == nil
		sl := a
		if a.K != KSlice {
			sl = b
		}
		if x.noName > 0 {
			r := sEq(sl.Len, x.ilit(0))
			if op == token.NEQ {
				r = sNot(r)
			}
			return bval(r)
		}
		nb := x.declare("slicenil", "Bool")
		x.fact(sImp(nb, sEq(sl.Len, x.ilit(0))))
		if op == token.NEQ {
			return bval(sNot(nb))
		}
		return bval(nb)
	}
	if a.K == KClosure || b.K == KClosure {
		// func == nil
		other := b
		if a.K != KClosure {
			other = a
		}
		_ = other
		if op == token.EQL {
			return bval("false")
		}
		return bval("true")
	}
	if a.K != KScalar || b.K != KScalar {
		x.refuse("binary %s on value kinds %d,%d", op, a.K, b.K)
	}
	bt, isInt := isIntType(opT)
	switch op {
	case token.EQL:
		return bval(sEq(a.T, b.T))
	case token.NEQ:
		return bval(sNot(sEq(a.T, b.T)))
	case token.LAND:
		return bval(sAnd(a.T, b.T))
	case token.LOR:
		return bval(sOr(a.T, b.T))
	}
	if a.S == "String" {
		switch op {
		case token.ADD:
			return x.scalar("(str.++ "+a.T+" "+b.T+")", resT)
		case token.LSS:
			return bval("(str.< " + a.T + " " + b.T + ")")
		case token.LEQ:
			return bval("(str.<= " + a.T + " " + b.T + ")")
		case token.GTR:
			return bval("(str.< " + b.T + " " + a.T + ")")
		case token.GEQ:
			return bval("(str.<= " + b.T + " " + a.T + ")")
		}
	}
	if a.S == "Float" {
		// floats are opaque
		if resT.Underlying().(*types.Basic).Info()&types.IsBoolean != 0 {
			if x.noName > 0 {
				x.refuse("float comparison inside specification")
			}
			return bval(x.declare("fcmp", "Bool"))
		}
		if x.noName > 0 {
			x.refuse("float arithmetic inside specification")
		}
		return x.scalar(x.declare("farith", "Float"), resT)
	}
	if !isInt {
		x.refuse("binary %s on %s", op, opT)
	}
	n, signed := x.intBits(bt)
	if x.mode == "bv" {
		var t string
		switch op {
		case token.ADD:
			t = "(bvadd " + a.T + " " + b.T + ")"
		case token.SUB:
			t = "(bvsub " + a.T + " " + b.T + ")"
		case token.MUL:
			t = "(bvmul " + a.T + " " + b.T + ")"
		case token.QUO, token.REM:
			x.addObl("safety:div-by-zero", "", pos, reach, sNot(sEq(b.T, x.intLit64(0, opT))))
			o := map[bool]map[token.Token]string{true: {token.QUO: "bvsdiv", token.REM: "bvsrem"}, false: {token.QUO: "bvudiv", token.REM: "bvurem"}}[signed][op]
			t = "(" + o + " " + a.T + " " + b.T + ")"
		case token.AND:
			t = "(bvand " + a.T + " " + b.T + ")"
		case token.OR:
			t = "(bvor " + a.T + " " + b.T + ")"
		case token.XOR:
			t = "(bvxor " + a.T + " " + b.T + ")"
		case token.AND_NOT:
			t = "(bvand " + a.T + " (bvnot " + b.T + "))"
		case token.SHL, token.SHR:
			// shift count has its own type: resize to n bits
			cb, _ := isIntType(b.GT)
			cn, _ := x.intBits(cb)
			cnt := b.T
			if cn < n {
				cnt = fmt.Sprintf("((_ zero_extend %d) %s)", n-cn, cnt)
			} else if cn > n {
				// saturate: counts >= n give 0 / sign
				cnt = fmt.Sprintf("(ite (bvuge %s (_ bv%d %d)) (_ bv%d %d) ((_ extract %d 0) %s))", b.T, n, cn, n, n, n-1, b.T)
			}
			o := "bvshl"
			if op == token.SHR {
				o = "bvlshr"
				if signed {
					o = "bvashr"
				}
			}
			t = "(" + o + " " + a.T + " " + cnt + ")"
		case token.LSS, token.LEQ, token.GTR, token.GEQ:
			o := map[bool]map[token.Token]string{
				true:  {token.LSS: "bvslt", token.LEQ: "bvsle", token.GTR: "bvsgt", token.GEQ: "bvsge"},
				false: {token.LSS: "bvult", token.LEQ: "bvule", token.GTR: "bvugt", token.GEQ: "bvuge"}}[signed][op]
			return bval("(" + o + " " + a.T + " " + b.T + ")")
		default:
			x.refuse("bv operator %s", op)
		}
		return x.scalar(x.define("bv", x.sortOf(resT), t), resT)
	}
	// math mode
	var t string
	switch op {
	case token.ADD:
		t = "(+ " + a.T + " " + b.T + ")"
	case token.SUB:
		t = "(- " + a.T + " " + b.T + ")"
	case token.MUL:
		t = "(* " + a.T + " " + b.T + ")"
	case token.QUO, token.REM:
		x.addObl("safety:div-by-zero", "", pos, reach, sNot(sEq(b.T, "0")))
		x.assume(reach, sNot(sEq(b.T, "0")))
		// Go truncates toward zero
		q := fmt.Sprintf("(ite (>= %s 0) (ite (> %s 0) (div %s %s) (- (div %s (- %s)))) (ite (> %s 0) (- (div (- %s) %s)) (div (- %s) (- %s))))", a.T, b.T, a.T, b.T, a.T, b.T, b.T, a.T, b.T, a.T, b.T)
		if !signed {
			q = "(div " + a.T + " " + b.T + ")"
		}
		if op == token.QUO {
			t = q
		} else {
			t = "(- " + a.T + " (* " + b.T + " " + q + "))"
		}
	case token.LSS:
		return bval("(< " + a.T + " " + b.T + ")")
	case token.LEQ:
		return bval("(<= " + a.T + " " + b.T + ")")
	case token.GTR:
		return bval("(> " + a.T + " " + b.T + ")")
	case token.GEQ:
		return bval("(>= " + a.T + " " + b.T + ")")
	case token.AND, token.OR, token.AND_NOT:
		// bit operations with a single-bit constant mask, in integer arithmetic
		val, mask := a, b
		m, ok := x.litInt(b.T)
		if !ok {
			m, ok = x.litInt(a.T)
			val, mask = b, a
		}
		_ = mask
		if !ok || m <= 0 || m&(m-1) != 0 || signed {
			x.refuse("operator %s in math mode needs a single-bit constant mask (use mode bv)", op)
		}
		bit := fmt.Sprintf("(= (mod (div %s %d) 2) 1)", val.T, m)
		switch op {
		case token.AND:
			t = fmt.Sprintf("(ite %s %d 0)", bit, m)
		case token.OR:
			t = fmt.Sprintf("(ite %s %s (+ %s %d))", bit, val.T, val.T, m)
		case token.AND_NOT:
			if val != a {
				x.refuse("constant &^ value in math mode")
			}
			t = fmt.Sprintf("(ite %s (- %s %d) %s)", bit, val.T, m, val.T)
		}
		return x.scalar(x.define("bit", "Int", t), resT)
	default:
		x.refuse("operator %s in math mode (use mode bv)", op)
	}
	if x.wrap && x.specArith == 0 {
		switch op {
		case token.ADD, token.SUB:
			t = x.wrapTerm(x.define("raw", "Int", t), resT, true)
		case token.MUL:
			t = x.wrapTerm(x.define("raw", "Int", t), resT, false)
		}
	}
	r := x.scalar(x.define("ar", "Int", t), resT)
	if op == token.ADD || op == token.SUB || op == token.MUL {
		x.ovfCheck(r, reach, pos)
	}
	return r
}

func (x *VC) convert(v *Val, from, to types.Type, reach, pos string, st *State) *Val {
	fb, fInt := isIntType(from)
	tb, tInt := isIntType(to)
	if fInt && tInt {
		if x.mode == "bv" {
			fn, fs := x.intBits(fb)
			tn, _ := x.intBits(tb)
			switch {
			case fn == tn:
				return x.scalar(v.T, to)
			case fn > tn:
				return x.scalar(fmt.Sprintf("((_ extract %d 0) %s)", tn-1, v.T), to)
			case fs:
				return x.scalar(fmt.Sprintf("((_ sign_extend %d) %s)", tn-fn, v.T), to)
			default:
				return x.scalar(fmt.Sprintf("((_ zero_extend %d) %s)", tn-fn, v.T), to)
			}
		}
		if x.wrap {
			fn, fs := x.intBits(fb)
			tn, ts := x.intBits(tb)
			if (fs == ts && fn <= tn) || (!fs && ts && fn < tn) {
				return x.scalar(v.T, to) // value-preserving
			}
			return x.scalar(x.define("cv", "Int", x.wrapTerm(v.T, to, fn == tn)), to)
		}
		r := x.scalar(v.T, to)
		x.ovfCheck(r, reach, pos)
		return r
	}
	if v.K == KScalar && x.sortOf(from) == x.sortOf(to) && x.sortOf(to) != "" && !fInt && !tInt {
		r := *v
		r.GT = to
		return &r
	}
	// string <-> []byte, int <-> float, ...: value carried opaquely
	x.note("conversion %s -> %s at %s yields an arbitrary value", shortType(from), shortType(to), pos)
	return x.fresh(to, "conv", reach, st)
}

func (x *VC) boxFns(t types.Type) (string, string) {
	s := x.sortOf(t)
	name := sanitize(shortTypeFull(t))
	bx, ub := "box_"+name, "unbox_"+name
	if !x.externs["decl:"+bx] {
		x.externs["decl:"+bx] = true
		x.emit(fmt.Sprintf("(declare-fun %s (%s) Int)", bx, s))
		x.emit(fmt.Sprintf("(declare-fun %s (Int) %s)", ub, s))
		x.emit(fmt.Sprintf("(assert (forall ((v %s)) (! (and (= (%s (%s v)) v) (> (%s v) 0) (= (dtype (%s v)) %s)) :pattern ((%s v)))))", s, ub, bx, bx, bx, x.tag(t), bx))
	}
	return bx, ub
}

func (x *VC) makeInterface(v *Val, from, to types.Type, reach string, st *State) *Val {
	switch from.Underlying().(type) {
	case *types.Pointer, *types.Map, *types.Chan, *types.Signature:
		if v.K == KClosure {
			return x.fresh(to, "boxfn", reach, st)
		}
		if v.K != KScalar {
			x.refuse("MakeInterface of interior address")
		}
		return &Val{K: KScalar, T: v.T, S: "Int", GT: to, Box: v}
	}
	if v.K == KScalar && x.sortOf(from) != "" {
		bx, _ := x.boxFns(from)
		r := &Val{K: KScalar, T: "(" + bx + " " + v.T + ")", S: "Int", GT: to, Box: v}
		x.boxOrigin[r.T] = v
		return r
	}
	// composite boxed value: opaque non-nil reference of that dynamic type
	if x.noName > 0 {
		x.refuse("boxing of composite inside specification")
	}
	r := x.declare("boxed", "Int")
	x.fact("(> " + r + " 0)")
	x.fact(sEq("(dtype "+r+")", x.tag(from)))
	if v.K == KSlice {
		if ub := x.unboxSlice(r, from); ub != nil && ub.ES == v.ES {
			x.fact(sAnd(sEq(ub.Arr, v.Arr), sEq(ub.Off, v.Off), sEq(ub.Len, v.Len)))
		}
	}
	return &Val{K: KScalar, T: r, S: "Int", GT: to, Box: v}
}

// unboxSlice: the slice held by a boxed value, as uninterpreted functions of the box (so that a type
// assertion in the code and a `.(as []T)` in a specification denote the same slice).
func (x *VC) unboxSlice(ref string, t types.Type) *Val {
	t = types.Unalias(t)
	st, ok := t.Underlying().(*types.Slice)
	if !ok {
		return nil
	}
	es := x.elemSortOf(st.Elem())
	base := "ubs_" + sanitize(shortTypeFull(t))
	if !x.externs["decl:"+base] {
		x.externs["decl:"+base] = true
		x.emit(fmt.Sprintf("(declare-fun %s_arr (Int) (Array %s %s))", base, x.idxSort(), es))
		x.emit(fmt.Sprintf("(declare-fun %s_off (Int) %s)", base, x.idxSort()))
		x.emit(fmt.Sprintf("(declare-fun %s_len (Int) %s)", base, x.idxSort()))
	}
	r := &Val{K: KSlice, ES: es, GT: t, Arr: "(" + base + "_arr " + ref + ")", Off: "(" + base + "_off " + ref + ")", Len: "(" + base + "_len " + ref + ")"}
	return r
}

func (x *VC) typeAssert(v *Val, at types.Type, commaOk bool, reach, pos string, resT types.Type, st *State) *Val {
	var ok string
	var val *Val
	if _, isIface := at.Underlying().(*types.Interface); isIface {
		tags := x.eng.implTags(x, at)
		if tags == nil {
			if it := at.Underlying().(*types.Interface); it.NumMethods() == 0 {
				ok = sNot(sEq(v.T, "0"))
			} else {
				p := "impl_" + sanitize(shortTypeFull(at))
				if !x.externs["decl:"+p] {
					x.externs["decl:"+p] = true
					x.emit(fmt.Sprintf("(declare-fun %s (Int) Bool)", p))
				}
				ok = sAnd(sNot(sEq(v.T, "0")), "("+p+" (dtype "+v.T+"))")
			}
		} else {
			var alts []string
			for _, tg := range tags {
				alts = append(alts, sEq("(dtype "+v.T+")", tg))
			}
			ok = sAnd(sNot(sEq(v.T, "0")), sOr(alts...))
		}
		val = &Val{K: KScalar, T: v.T, S: "Int", GT: at}
	} else {
		ok = sAnd(sNot(sEq(v.T, "0")), sEq("(dtype "+v.T+")", x.tag(at)))
		switch at.Underlying().(type) {
		case *types.Pointer, *types.Map, *types.Chan, *types.Signature:
			val = &Val{K: KScalar, T: v.T, S: "Int", GT: at}
		default:
			if s := x.sortOf(at); s != "" {
				_, ub := x.boxFns(at)
				val = &Val{K: KScalar, T: "(" + ub + " " + v.T + ")", S: s, GT: at}
				x.typeFacts(val, st)
			} else if v.Box != nil && types.Identical(v.Box.GT, at) {
				val = v.Box
			} else if ub := x.unboxSlice(v.T, at); ub != nil {
				val = ub
				x.assume(reach, sAnd(x.cmpS("<=", x.ilit(0), ub.Len), x.cmpS("<=", x.ilit(0), ub.Off)))
			} else {
				val = x.fresh(at, "unboxed", reach, st)
			}
		}
	}
	ok = x.define("taok", "Bool", ok)
	if commaOk {
		// value is the zero value when !ok
		if val.K == KScalar {
			val = &Val{K: KScalar, T: sIte(ok, val.T, x.zero(at).T), S: val.S, GT: at}
		}
		return &Val{K: KStruct, Fs: []*Val{val, bval(ok)}, GT: resT}
	}
	x.addObl("safety:type-assert", "", pos, reach, ok)
	x.assume(reach, ok)
	return val
}

// ---- slices -------------------------------------------------------------------

func (fr *Frame) sliceOp(ins *ssa.Slice, st *State, reach string) *Val {
	x := fr.x
	xv := fr.value(ins.X)
	var base *Val
	switch xv.K {
	case KSlice:
		base = xv
	case KAddr:
		if xv.A.Kind == ACell {
			base = x.loadAddr(xv.A, st)
			if base.K != KSlice {
				x.refuse("slice of non-array cell")
			}
		}
	case KScalar:
		if xv.S == "String" {
			lo, hi := x.ilit(0), "(str.len "+xv.T+")"
			if x.mode == "bv" {
				x.refuse("substring in bv mode")
			}
			if ins.Low != nil {
				lo = fr.value(ins.Low).T
			}
			if ins.High != nil {
				hi = fr.value(ins.High).T
			}
			x.addObl("safety:slice-bounds", "", x.posOf(ins), reach, sAnd("(<= 0 "+lo+")", "(<= "+lo+" "+hi+")", "(<= "+hi+" (str.len "+xv.T+"))"))
			return x.scalar("(str.substr "+xv.T+" "+lo+" (- "+hi+" "+lo+"))", ins.Type())
		}
	}
	if base == nil {
		x.refuse("slice of %v in %s", xv.K, fr.fn)
	}
	lo := x.ilit(0)
	hi := base.Len
	if ins.Low != nil {
		lo = x.toIdx(fr.value(ins.Low))
	}
	if ins.High != nil {
		hi = x.toIdx(fr.value(ins.High))
	}
	if ins.Low != nil || ins.High != nil {
		// Go checks against cap; reading beyond len is a defect even when it does not panic, so len is used
		cond := sAnd(x.cmpS("<=", x.ilit(0), lo), x.cmpS("<=", lo, hi), x.cmpS("<=", hi, base.Len))
		x.addObl("safety:slice-bounds", "", x.posOf(ins), reach, cond)
		x.assume(reach, cond)
	}
	r := &Val{K: KSlice, Arr: base.Arr, Off: x.define("soff", x.idxSort(), x.addS(base.Off, lo)), Len: x.define("slen", x.idxSort(), x.subS(hi, lo)), ES: base.ES, GT: ins.Type()}
	if base.RawArr != "" {
		r.RawArr, r.RawOff = base.RawArr, x.define("srawoff", x.idxSort(), x.addS(base.RawOff, lo))
	}
	return r
}

// appendVals models append(s, t...).
func (x *VC) appendVals(s, t *Val, resT types.Type, reach string) *Val {
	if t.K == KScalar && t.S == "String" {
		x.refuse("append of string to byte slice")
	}
	if s.K != KSlice || t.K != KSlice {
		x.refuse("append on non-slices")
	}
	// literal small length: unroll
	if n, ok := x.litInt(t.Len); ok && n <= 8 {
		arr := s.Arr
		for i := int64(0); i < n; i++ {
			arr = sStore(arr, x.addS(x.addS(s.Off, s.Len), x.ilit(i)), sSel(t.Arr, x.addS(t.Off, x.ilit(i))))
		}
		as := fmt.Sprintf("(Array %s %s)", x.idxSort(), s.ES)
		r := &Val{K: KSlice, Arr: x.define("app", as, arr), Off: s.Off, Len: x.define("applen", x.idxSort(), x.addS(s.Len, t.Len)), ES: s.ES, GT: resT}
		if x.mode == "math" {
			x.fact("(<= " + r.Len + " 4611686018427387904)")
		}
		return r
	}
	as := fmt.Sprintf("(Array %s %s)", x.idxSort(), s.ES)
	arr := x.declare("appg", as)
	is := x.idxSort()
	if x.mode == "bv" {
		x.refuse("general append in bv mode")
	}
	// absolute-index form: (select arr a) is the trigger, so element-quantified specifications match
	x.fact(fmt.Sprintf("(forall ((a %s)) (! (=> (and (<= %s a) (< a (+ %s %s))) (= (select %s a) (select %s a))) :pattern ((select %s a))))", is, s.Off, s.Off, s.Len, arr, s.Arr, arr))
	x.fact(fmt.Sprintf("(forall ((a %s)) (! (=> (and (<= (+ %s %s) a) (< a (+ %s %s %s))) (= (select %s a) (select %s (+ %s (- a %s %s))))) :pattern ((select %s a))))", is, s.Off, s.Len, s.Off, s.Len, t.Len, arr, t.Arr, t.Off, s.Off, s.Len, arr))
	r := &Val{K: KSlice, Arr: arr, Off: s.Off, Len: x.define("applen", is, x.addS(s.Len, t.Len)), ES: s.ES, GT: resT}
	x.fact("(<= " + r.Len + " 4611686018427387904)")
	return r
}

func (x *VC) litInt(t string) (int64, bool) {
	var n int64
	if x.mode == "bv" {
		var w int
		if _, err := fmt.Sscanf(t, "(_ bv%d %d)", &n, &w); err == nil {
			return n, true
		}
		return 0, false
	}
	if _, err := fmt.Sscanf(t, "%d", &n); err == nil && fmt.Sprint(n) == t {
		return n, true
	}
	return 0, false
}

// ---- maps ----------------------------------------------------------------------

func (x *VC) keySort(mt *types.Map) string {
	ks := x.sortOf(mt.Key())
	if ks == "" {
		x.refuse("map with composite key %s", mt.Key())
	}
	return ks
}

func (x *VC) mapComps(mt *types.Map) (dom, val, card *Comp) {
	ks := x.keySort(mt)
	vs := x.sortOf(mt.Elem())
	if vs == "" {
		vs = "Int"
	}
	key := "M|" + shortTypeFull(mt)
	dom = x.comp(key+"|dom", "Int", fmt.Sprintf("(Array %s Bool)", ks))
	val = x.comp(key+"|val", "Int", fmt.Sprintf("(Array %s %s)", ks, vs))
	card = x.comp(key+"|card", "Int", x.idxSort())
	return
}

func (x *VC) mapHas(st *State, mt *types.Map, m, k string) string {
	d, _, _ := x.mapComps(mt)
	return sAnd(sNot(sEq(m, "0")), sSel(sSel(x.get(st, d), m), k))
}

func (x *VC) mapGet(st *State, mt *types.Map, m, k string) string {
	_, v, _ := x.mapComps(mt)
	return sSel(sSel(x.get(st, v), m), k)
}

func (x *VC) mapStore(st *State, mt *types.Map, m string, k, v *Val) {
	d, vc, c := x.mapComps(mt)
	if v.K != KScalar {
		x.refuse("map with composite values")
	}
	dm := x.get(st, d)
	had := sSel(sSel(dm, m), k.T)
	cm := x.get(st, c)
	x.set(st, c, sStore(cm, m, x.addS(sSel(cm, m), sIte(had, x.ilit(0), x.ilit(1)))))
	x.set(st, d, sStore(dm, m, sStore(sSel(dm, m), k.T, "true")))
	vm := x.get(st, vc)
	x.set(st, vc, sStore(vm, m, sStore(sSel(vm, m), k.T, v.T)))
}

func (x *VC) mapDelete(st *State, mt *types.Map, m string, k *Val) {
	d, _, c := x.mapComps(mt)
	dm := x.get(st, d)
	had := sAnd(sNot(sEq(m, "0")), sSel(sSel(dm, m), k.T))
	cm := x.get(st, c)
	x.set(st, c, sStore(cm, m, x.subS(sSel(cm, m), sIte(had, x.ilit(1), x.ilit(0)))))
	x.set(st, d, sStore(dm, m, sStore(sSel(dm, m), k.T, "false")))
}

func (fr *Frame) lookup(ins *ssa.Lookup, st *State, reach string) *Val {
	x := fr.x
	xv := fr.value(ins.X)
	kv := fr.value(ins.Index)
	mt, ok := ins.X.Type().Underlying().(*types.Map)
	if !ok {
		// string index
		if x.mode == "bv" {
			x.refuse("string indexing in bv mode")
		}
		idx := kv.T
		x.addObl("safety:index", "", x.posOf(ins), reach, sAnd("(<= 0 "+idx+")", "(< "+idx+" (str.len "+xv.T+"))"))
		return x.scalar("(str.to_code (str.at "+xv.T+" "+idx+"))", ins.Type())
	}
	has := x.define("has", "Bool", x.mapHas(st, mt, xv.T, kv.T))
	vs := x.sortOf(mt.Elem())
	if vs == "" {
		x.refuse("map with composite values")
	}
	val := x.scalar(x.define("mv", vs, sIte(has, x.mapGet(st, mt, xv.T, kv.T), x.zero(mt.Elem()).T)), mt.Elem())
	x.typeFacts(val, st)
	x.elemTypeInvFacts(xv.Src, val, true)
	if ins.CommaOk {
		return &Val{K: KStruct, Fs: []*Val{val, bval(has)}, GT: ins.Type()}
	}
	return val
}

func (fr *Frame) rangeStart(ins *ssa.Range, st *State, reach string) *Val {
	x := fr.x
	xv := fr.value(ins.X)
	mt, ok := ins.X.Type().Underlying().(*types.Map)
	if !ok {
		x.refuse("range over string")
	}
	ks := x.keySort(mt)
	it := &iterState{kind: "map", m: xv.T, mt: mt}
	it.seen = fmt.Sprintf("((as const (Array %s Bool)) false)", ks)
	x.iters[ins] = it
	return &Val{K: KIter, It: it}
}

func (fr *Frame) rangeNext(ins *ssa.Next, st *State, reach string) *Val {
	x := fr.x
	rng, ok := ins.Iter.(*ssa.Range)
	if !ok {
		x.refuse("next on non-range iterator")
	}
	it := x.iters[rng]
	if it == nil {
		x.refuse("iterator used before range")
	}
	mt := it.mt
	ks := x.keySort(mt)
	k := x.declare("rk", ks)
	okb := x.declare("rok", "Bool")
	d, _, _ := x.mapComps(mt)
	dom := sSel(x.get(st, d), it.m)
	// ok ==> k is an unvisited key; !ok ==> every key was visited
	x.assume(reach, sImp(okb, sAnd(sNot(sEq(it.m, "0")), sSel(dom, k), sNot(sSel(it.seen, k)))))
	x.assume(reach, sImp(sNot(okb), sOr(sEq(it.m, "0"), fmt.Sprintf("(forall ((q %s)) (! (=> (select %s q) (select %s q)) :pattern ((select %s q))))", ks, dom, it.seen, dom))))
	kval := x.scalar(k, mt.Key())
	vs := x.sortOf(mt.Elem())
	if vs == "" {
		x.refuse("map with composite values")
	}
	vval := x.scalar(x.define("rv", vs, x.mapGet(st, mt, it.m, k)), mt.Elem())
	x.typeFacts(vval, st)
	it.seen = x.define("seen", fmt.Sprintf("(Array %s Bool)", ks), sIte(okb, sStore(it.seen, k, "true"), it.seen))
	return &Val{K: KStruct, Fs: []*Val{bval(okb), kval, vval}, GT: ins.Type()}
}
