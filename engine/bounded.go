package main

// Bounded stand-ins: functions that the contracts cannot reach (declared `bounded <harness> <reason>` in their
// contract block) are exercised by an exhaustive small-scope run of the REAL code: /verif/bounded/<harness>_test.go is
// injected into the function's package with `go test -overlay` and enumerates every history up to a stated bound.
// The result is reported under coverage.bounded and among the assumptions as BOUNDED; it is never counted as a
// discharged obligation. A failing history is a violation with a concrete failing input.

import (
	"bytes"
	"context"
	"encoding/json"
	"fmt"
	"os"
	"os/exec"
	"path/filepath"
	"regexp"
	"strconv"
	"strings"
	"time"
)

type boundedResult struct {
	Harness   string
	Functions []string
	Why       string
	File      string
	Cmd       string
	Depth     int
	Replicas  int
	Summary   map[string]string
	Fails     []string
	Err       string
	Secs      float64
}

func (r *boundedResult) describe() string {
	return fmt.Sprintf("harness %s: %s (%s cases executed on the real code)", r.Harness, r.Summary["bound"], r.Summary["histories"])
}

func (r *boundedResult) coverage() map[string]interface{} {
	n, _ := strconv.Atoi(r.Summary["histories"])
	st, _ := strconv.Atoi(r.Summary["steps"])
	return map[string]interface{}{
		"label":               "bounded (stand-in, not a proof)",
		"harness":             r.File,
		"stands_in_for":       r.Functions,
		"reason":              r.Why,
		"bound":               r.Summary["bound"],
		"cases":               n,
		"steps_executed":      st,
		"exhaustive_in_bound": r.Err == "",
		"failing_cases":       len(r.Fails),
		"sample":              r.Summary["sample"],
		"cmd":                 r.Cmd,
		"wall_s":              r.Secs,
	}
}

var sumKV = regexp.MustCompile(`(\w+)=(\[[^\]]*\]|\S+)`)

func runBounded(r *boundedResult, pkgPath, tier string) {
	t0 := time.Now()
	defer func() { r.Secs = float64(int(time.Since(t0).Seconds()*100)) / 100 }()
	r.Summary = map[string]string{}
	r.File = filepath.Join(verifRoot, "bounded", r.Harness+"_test.go")
	r.Depth, r.Replicas = 3, 2
	timeout := 300
	if tier == "thorough" {
		r.Depth = 4
		timeout = 1500
	}
	if _, err := os.Stat(r.File); err != nil {
		r.Err = "harness file missing: " + r.File
		return
	}
	mod := moduleOf(pkgPath + "/")
	if mod == "" {
		r.Err = "no module for " + pkgPath
		return
	}
	rel := strings.TrimPrefix(pkgPath, "github.com/orda-io/orda/")
	pkgDir := filepath.Join(repoRoot, rel)
	dir := scratchDir()
	of := filepath.Join(dir, fmt.Sprintf("bounded_%d.overlay.json", time.Now().UnixNano()))
	ov := map[string]map[string]string{"Replace": {filepath.Join(pkgDir, "zz_verif_bounded_test.go"): r.File}}
	ovData, _ := json.Marshal(ov)
	_ = os.WriteFile(of, ovData, 0o644)
	defer os.Remove(of)
	mf := filepath.Join(dir, fmt.Sprintf("bmod%d", time.Now().UnixNano()))
	_ = os.MkdirAll(mf, 0o755)
	defer os.RemoveAll(mf)
	for _, n := range []string{"go.mod", "go.sum"} {
		if b, err := os.ReadFile(filepath.Join(mod, n)); err == nil {
			_ = os.WriteFile(filepath.Join(mf, n), b, 0o644)
		}
	}
	sub := strings.TrimPrefix(rel, filepath.Base(mod)+"/")
	r.Cmd = fmt.Sprintf("cd %s && VERIF_BOUND_DEPTH=%d VERIF_BOUND_REPLICAS=%d go test -overlay <{\"Replace\":{\"%s\":\"%s\"}}> -vet=off -count=1 -v -run '^TestVerifBounded$' ./%s",
		mod, r.Depth, r.Replicas, filepath.Join(pkgDir, "zz_verif_bounded_test.go"), r.File, sub)
	ctx, cancel := context.WithTimeout(context.Background(), time.Duration(timeout+60)*time.Second)
	defer cancel()
	cmd := exec.CommandContext(ctx, "bash", "-c", fmt.Sprintf("ulimit -v 16000000; cd %s && go test -modfile=%s -overlay %s -vet=off -count=1 -v -timeout %ds -run '^TestVerifBounded$' ./%s",
		mod, filepath.Join(mf, "go.mod"), of, timeout, sub))
	cmd.Env = append(os.Environ(), "GOFLAGS=-mod=mod", "GOPROXY=off", "GOSUMDB=off", "GOTOOLCHAIN=local",
		fmt.Sprintf("VERIF_BOUND_DEPTH=%d", r.Depth), fmt.Sprintf("VERIF_BOUND_REPLICAS=%d", r.Replicas))
	var out bytes.Buffer
	cmd.Stdout = &out
	cmd.Stderr = &out
	runErr := cmd.Run()
	sawSummary := false
	for _, l := range strings.Split(out.String(), "\n") {
		if i := strings.Index(l, "VERIF-BOUNDED-FAIL: "); i >= 0 {
			r.Fails = append(r.Fails, strings.TrimSpace(l[i+len("VERIF-BOUNDED-FAIL: "):]))
		}
		if i := strings.Index(l, "VERIF-BOUNDED-SUMMARY "); i >= 0 {
			sawSummary = true
			for _, m := range sumKV.FindAllStringSubmatch(l[i:], -1) {
				r.Summary[m[1]] = strings.Trim(m[2], "[]")
			}
			if k := strings.Index(l, "sample=["); k >= 0 { // the sample comes last and may contain brackets
				r.Summary["sample"] = strings.TrimSuffix(strings.TrimSpace(l[k+len("sample=["):]), "]")
			}
		}
	}
	if !sawSummary {
		r.Err = "no summary line (build failure, timeout or crash): " + truncate(out.String(), 1500)
		if runErr != nil {
			r.Err = runErr.Error() + ": " + r.Err
		}
	}
}
