package main

// Calls: builtins, calls by contract, automatic inlining of small loop-free
// functions, closed-world dispatch of interface calls, engine-level externs.

import (
	"fmt"
	"go/constant"
	"go/types"
	"os"
	"strings"

	"golang.org/x/tools/go/ssa"
)

func (fr *Frame) call(ins *ssa.Call, cc *ssa.CallCommon, st *State, reach string) *Val {
	var args []*Val
	for _, a := range cc.Args {
		args = append(args, fr.value(a))
	}
	var fnv *Val
	if _, isB := cc.Value.(*ssa.Builtin); !isB {
		fnv = fr.value(cc.Value)
	}
	return fr.callCommon(ins, cc, args, fnv, st, reach, ins)
}

func (fr *Frame) spawn(ins *ssa.Go, st *State, reach string) {
	// evaluate arguments (their evaluation happens in the spawning goroutine)
	for _, a := range ins.Call.Args {
		_ = fr.value(a)
	}
}

func tupleOrSingle(x *VC, res []*Val, sig *types.Signature) *Val {
	switch sig.Results().Len() {
	case 0:
		return &Val{K: KUnit}
	case 1:
		if len(res) < 1 {
			return &Val{K: KUnit}
		}
		return res[0]
	}
	return &Val{K: KStruct, Fs: res, GT: sig.Results()}
}

// callCommon performs a call. *st is updated in place.
func (fr *Frame) callCommon(at ssa.Instruction, cc *ssa.CallCommon, args []*Val, fnv *Val, st *State, reach string, callIns *ssa.Call) *Val {
	x := fr.x
	pos := x.posOf(at)
	if b, ok := cc.Value.(*ssa.Builtin); ok && !cc.IsInvoke() {
		var rt types.Type
		if callIns != nil {
			rt = callIns.Type()
		}
		return fr.builtin(b, cc, args, st, reach, pos, rt)
	}
	sig := cc.Signature()
	if cc.IsInvoke() {
		recv := fnv
		res := x.invoke(recv, cc.Value.Type(), cc.Method, args, st, reach, pos, fr.depth)
		return tupleOrSingle(x, res, sig)
	}
	var callee *ssa.Function
	var binds []*Val
	if fnv != nil && fnv.K == KClosure {
		callee = fnv.Fn
		binds = fnv.Bnd
	} else if f := cc.StaticCallee(); f != nil {
		callee = f
	}
	if callee == nil {
		// call through a function value of unknown origin
		res := x.callUnknownFunc(fr, cc.Value, fnv, sig, args, st, reach, pos)
		return tupleOrSingle(x, res, sig)
	}
	res := x.callStatic(callee, args, binds, st, reach, pos, fr.depth)
	return tupleOrSingle(x, res, sig)
}

// callUnknownFunc: a callback supplied by the caller. Modelled as arbitrary code
// of the client: it may change everything (`modifies *`) and return anything.
func (x *VC) callUnknownFunc(fr *Frame, fv ssa.Value, fnv *Val, sig *types.Signature, args []*Val, st *State, reach, pos string) []*Val {
	if n, ok := fv.Type().(*types.Named); ok && n.Obj().Pkg() != nil && n.Obj().Pkg().Path() == "context" && n.Obj().Name() == "CancelFunc" {
		// a context.CancelFunc releases the timer of its context: no effect on anything the contracts speak about
		x.externs["assumed: calling a context.CancelFunc has no effect on modelled state"] = true
		return nil
	}
	x.note("call through function value at %s: arbitrary effect on the heap assumed (modifies *)", pos)
	pre := st.clone()
	x.havocAll(st)
	var res []*Val
	for i := 0; i < sig.Results().Len(); i++ {
		res = append(res, x.fresh(sig.Results().At(i).Type(), "cbres", reach, st))
	}
	// what the contract assumes about a callback passed as parameter
	if p, ok := fv.(*ssa.Parameter); ok && fr.top && x.c != nil && x.c.Callback != nil {
		if cls := x.c.Callback[p.Name()]; len(cls) > 0 {
			env := x.topEnv(fr, res, st)
			env.old = pre
			env.result = res
			env.sig = sig
			for _, cl := range cls {
				x.assume(reach, x.evalSpec(cl.E, env).T)
			}
			x.externs["assumed about the callback parameter "+p.Name()+" of "+fnKeyShort(x.fn)] = true
		}
	}
	return res
}

func (x *VC) havocAll(st *State) {
	if x.noName > 0 {
		x.refuse("heap havoc inside specification")
	}
	st.ep = x.newEpoch("havoc", st.ep)
	// keep cells; drop explicit heap versions (immutable fields keep theirs)
	for k := range st.H {
		if x.immutableComp(k) || x.ghostKey(k) {
			continue
		}
		delete(st.H, k)
	}
	if x.writeLog != nil {
		x.writeLog["*"] = true
	}
}

func (x *VC) callStatic(callee *ssa.Function, args []*Val, binds []*Val, st *State, reach, pos string, depth int) []*Val {
	sig := callee.Signature
	if c := x.eng.contractOf(callee); c != nil && !(x.specMode > 0 && !c.Extern && !c.Opaque && callee.Blocks != nil && !hasLoops(callee) && len(c.Ensures) == 0) {
		return x.callByContract(callee, c, args, st, reach, pos)
	}
	if r, ok := x.engineExtern(callee, args, st, reach, pos); ok {
		return r
	}
	if isStringer(callee) && !strings.HasPrefix(fnKey(callee), repoPrefix+"client/pkg/model::(*Timestamp)") {
		// String()/Error() methods: the text is irrelevant to every property; bodies are not followed
		x.externs["assumed-pure: String()/Error() methods return an arbitrary string"] = true
		return []*Val{x.freshOrNamed(sig.Results().At(0).Type(), "str", reach, st)}
	}
	if callee.Blocks == nil {
		x.refuse("call to %s: no body and no contract", callee)
	}
	if hasLoops(callee) {
		x.refuse("call to %s: has loops and no contract", callee)
	}
	if depth >= x.maxDepth {
		x.refuse("call to %s: inlining depth %d exceeded", callee, depth)
	}
	if isRecursive(callee) {
		x.refuse("call to %s: recursive and no contract", callee)
	}
	x.inlined[fnKeyShort(callee)] = true
	x.inlineCount++
	if debugOn {
		fmt.Fprintf(os.Stderr, "%sinline %s (depth %d, #%d)\n", strings.Repeat(" ", depth), fnKeyShort(callee), depth, x.inlineCount)
	}
	if callee.Pkg != nil && !strings.HasPrefix(callee.Pkg.Pkg.Path(), repoPrefix) {
		n := 0
		for _, b := range callee.Blocks {
			n += len(b.Instrs)
		}
		if n > 60 {
			x.refuse("call to %s: foreign function without contract is too large to inline (%d instructions)", callee, n)
		}
	}
	if x.inlineCount > 4000 {
		x.refuse("inlining budget exceeded (4000 inlined calls): dispatch needs a typeinv or a contract")
	}
	res, out, _ := x.runFunc(callee, args, binds, st, reach, depth+1, false)
	*st = *out.clone()
	if res == nil {
		// function never returns normally (always panics)
		for i := 0; i < sig.Results().Len(); i++ {
			res = append(res, x.zero(sig.Results().At(i).Type()))
		}
	}
	return res
}

func isRecursive(f *ssa.Function) bool {
	for _, b := range f.Blocks {
		for _, i := range b.Instrs {
			if c, ok := i.(ssa.CallInstruction); ok {
				if c.Common().StaticCallee() == f {
					return true
				}
			}
		}
	}
	return false
}

// invoke dispatches an interface method call over the closed world of implementers.
func (x *VC) invoke(recv *Val, ifaceT types.Type, m *types.Func, args []*Val, st *State, reach, pos string, depth int) []*Val {
	sig := m.Type().(*types.Signature)
	if returnsOnlyLogger(sig) {
		// logger getters: contexts always carry a logger (listed assumption)
		if r, ok := x.autoPure(types.NewPackage("logger", "logger"), m.FullName(), sig, st, reach); ok {
			return r
		}
	}
	x.addObl("safety:nil-deref", "invoke "+m.Name(), pos, reach, sNot(sEq(recv.T, "0")))
	x.assume(reach, sNot(sEq(recv.T, "0")))
	// contract declared on the interface method?
	ikey := ""
	if n, ok := ifaceT.(*types.Named); ok && n.Obj().Pkg() != nil {
		ikey = n.Obj().Pkg().Path() + "::" + n.Obj().Name() + "." + m.Name()
	}
	if c := x.eng.db.Contracts[ikey]; c != nil {
		return x.applyContract(nil, c, ikey, sig, append([]*Val{recv}, args...), st, reach, pos, ifaceMethodParams(m))
	}
	// auto-pure methods (logging etc.)
	if r, ok := x.autoPure(m.Pkg(), m.FullName(), sig, st, reach); ok {
		return r
	}
	// error.Error() / fmt.Stringer.String(): message text is irrelevant to every property
	if (m.Name() == "Error" || m.Name() == "String") && sig.Params().Len() == 0 && sig.Results().Len() == 1 && x.sortOf(sig.Results().At(0).Type()) == "String" {
		x.externs["assumed-pure: Error()/String() on interface values return an arbitrary string"] = true
		return []*Val{x.freshOrNamed(sig.Results().At(0).Type(), "msg", reach, st)}
	}
	impls := x.eng.implementers(ifaceT)
	if recv.Alt != nil {
		impls = recv.Alt
	}
	if x.c != nil && x.c.Dispatch != nil && x.specMode == 0 {
		if n, ok := ifaceT.(*types.Named); ok {
			if alts, ok := x.c.Dispatch[n.Obj().Name()]; ok {
				var hs []types.Type
				var conds []string
				for _, a := range alts {
					t := x.resolveType(a, x.eng.pkgByPath(x.c.Pkg))
					hs = append(hs, t)
					conds = append(conds, sEq("(dtype "+recv.T+")", x.tag(t)))
				}
				x.addObl("dispatch", n.Obj().Name()+"."+m.Name(), pos, reach, sOr(conds...))
				x.assume(reach, sOr(conds...))
				impls = hs
			}
		}
	}
	if impls == nil {
		x.refuse("invoke %s on open-world interface %s at %s (needs a contract %s)", m.Name(), shortType(ifaceT), pos, ikey)
	}
	if len(impls) == 0 {
		x.refuse("invoke %s: no implementers of %s", m.Name(), shortType(ifaceT))
	}
	if depth >= x.maxDepth {
		// deeper dispatch must be unreachable (needs a typeinv to discharge)
		x.addObl("inline-depth", m.Name(), pos, reach, "false")
		var res []*Val
		for i := 0; i < sig.Results().Len(); i++ {
			res = append(res, x.zero(sig.Results().At(i).Type()))
		}
		return res
	}
	type br struct {
		cond string
		res  []*Val
		st   *State
	}
	var brs []br
	for _, ct := range impls {
		sel := x.eng.prog.MethodSets.MethodSet(ct).Lookup(m.Pkg(), m.Name())
		if sel == nil {
			continue
		}
		fn := x.eng.prog.MethodValue(sel)
		if fn == nil {
			continue
		}
		cond := x.define("disp", "Bool", sAnd(reach, sEq("(dtype "+recv.T+")", x.tag(ct))))
		if !x.feasibleQuick(cond) {
			continue
		}
		bst := st.clone()
		rv := &Val{K: KScalar, T: recv.T, S: "Int", GT: ct}
		var recvArg *Val = rv
		if _, isPtr := ct.Underlying().(*types.Pointer); !isPtr {
			if s := x.sortOf(ct); s != "" {
				_, ub := x.boxFns(ct)
				recvArg = &Val{K: KScalar, T: "(" + ub + " " + recv.T + ")", S: s, GT: ct}
			} else {
				x.refuse("invoke on boxed composite receiver %s", shortType(ct))
			}
		}
		res := x.callStatic(fn, append([]*Val{recvArg}, args...), nil, bst, cond, pos, depth)
		brs = append(brs, br{cond, res, bst})
	}
	if len(brs) == 0 {
		// no feasible target on this path (e.g. statically unreachable): any value will do
		var res []*Val
		for i := 0; i < sig.Results().Len(); i++ {
			res = append(res, x.zero(sig.Results().At(i).Type()))
		}
		return res
	}
	last := brs[len(brs)-1]
	out := last.st
	res := last.res
	for i := len(brs) - 2; i >= 0; i-- {
		out = x.mergeStates(brs[i].cond, brs[i].st, out)
		nr := make([]*Val, len(res))
		for k := range res {
			nr[k] = x.mergeVals(brs[i].cond, brs[i].res[k], res[k])
		}
		res = nr
	}
	*st = *out.clone()
	return res
}

// feasibleQuick prunes dispatch branches that are syntactically impossible
// (the receiver's dtype was fixed by an allocation or a typeinv in this VC).
func (x *VC) feasibleQuick(cond string) bool { return cond != "false" }

func ifaceMethodParams(m *types.Func) []string {
	sig := m.Type().(*types.Signature)
	ps := []string{"its"}
	for i := 0; i < sig.Params().Len(); i++ {
		n := sig.Params().At(i).Name()
		if n == "" {
			n = fmt.Sprintf("a%d", i)
		}
		ps = append(ps, n)
	}
	return ps
}

// autoPure: functions whose effect on the verified state is nil by policy.
func (x *VC) autoPure(pkg *types.Package, full string, sig *types.Signature, st *State, reach string) ([]*Val, bool) {
	if pkg == nil {
		return nil, false
	}
	p := pkg.Path()
	pure := p == repoPrefix+"client/pkg/log" || p == "github.com/sirupsen/logrus" || p == "runtime/debug" || p == "log"
	if !pure && returnsOnlyLogger(sig) {
		// logger getters (its.L(), ctx.L()): the logger object is irrelevant to every property
		pure = true
		p = "logger getters returning *log.OrdaLog"
	}
	if !pure {
		return nil, false
	}
	x.externs["assumed-pure: "+p+" (logging)"] = true
	var res []*Val
	for i := 0; i < sig.Results().Len(); i++ {
		r := x.freshOrNamed(sig.Results().At(i).Type(), "log", reach, st)
		if returnsOnlyLogger(sig) && r.K == KScalar && x.noName == 0 {
			x.fact(sNot(sEq(r.T, "0"))) // loggers are never nil (listed assumption)
			x.externs["assumed: logger getters return a non-nil logger"] = true
		}
		res = append(res, r)
	}
	return res, true
}

func (x *VC) freshOrNamed(t types.Type, hint, reach string, st *State) *Val {
	if x.noName > 0 {
		return x.zero(t)
	}
	return x.fresh(t, hint, reach, st)
}

// engineExtern: dependencies modelled inside the engine.
func (x *VC) engineExtern(callee *ssa.Function, args []*Val, st *State, reach, pos string) ([]*Val, bool) {
	if callee.Pkg == nil {
		if returnsOnlyLogger(callee.Signature) {
			return x.autoPure(types.NewPackage("logger", "logger"), callee.String(), callee.Signature, st, reach)
		}
		return nil, false
	}
	if r, ok := x.autoPure(callee.Pkg.Pkg, callee.String(), callee.Signature, st, reach); ok {
		return r, true
	}
	name := callee.String()
	switch name {
	case "fmt.Fprintf", "fmt.Sprintf":
		return x.formatExtern(name, callee, args, st, reach, pos), true
	case "(*strings.Builder).String":
		c := x.comp("F|strings.Builder|$content", "Int", "String")
		x.externs["modelled: strings.Builder as ghost string content"] = true
		return []*Val{x.scalar(sSel(x.get(st, c), x.addrRef(args[0])), types.Typ[types.String])}, true
	case "(*strings.Builder).WriteString":
		c := x.comp("F|strings.Builder|$content", "Int", "String")
		r := x.addrRef(args[0])
		x.set(st, c, sStore(x.get(st, c), r, "(str.++ "+sSel(x.get(st, c), r)+" "+args[1].T+")"))
		return []*Val{x.freshOrNamed(tInt, "n", reach, st), x.scalar("0", types.Universe.Lookup("error").Type())}, true
	}
	return nil, false
}

func (x *VC) addrRef(v *Val) string {
	if v.K == KScalar {
		return v.T
	}
	if v.K == KAddr && v.A.Kind == ACell {
		// a local strings.Builder: use a per-cell pseudo reference
		return fmt.Sprintf("%d", -1000-x.eng.tagOf("cell:"+x.fn.String()+":"+v.A.Cell.Name()))
	}
	x.refuse("address of unsupported kind passed to extern")
	return ""
}

// formatExtern translates Sprintf/Fprintf with a constant format of %d %s %v verbs.
func (x *VC) formatExtern(name string, callee *ssa.Function, args []*Val, st *State, reach, pos string) []*Val {
	fi := 0
	if name == "fmt.Fprintf" {
		fi = 1
	}
	format, isConst := x.constString(args[fi])
	va := args[fi+1]
	var out string
	ok := isConst && va.K == KSlice
	var parts []string
	if ok {
		n, lit := x.litInt(va.Len)
		if !lit {
			ok = false
		} else {
			argi := int64(0)
			cur := ""
			for i := 0; i < len(format) && ok; i++ {
				if format[i] != '%' {
					cur += string(format[i])
					continue
				}
				i++
				if i >= len(format) {
					ok = false
					break
				}
				if format[i] == '%' {
					cur += "%"
					continue
				}
				if format[i] != 'd' && format[i] != 's' && format[i] != 'v' {
					ok = false
					break
				}
				if argi >= n {
					ok = false
					break
				}
				if cur != "" {
					parts = append(parts, smtStringLit(cur))
					cur = ""
				}
				bx := x.boxedArg(va, argi)
				if bx == nil {
					ok = false
					break
				}
				switch {
				case bx.S == "String" && (format[i] == 's' || format[i] == 'v'):
					parts = append(parts, bx.T)
				case bx.S != "String" && (format[i] == 'd' || format[i] == 'v'):
					if _, isInt := isIntType(bx.GT); !isInt {
						ok = false
						break
					}
					parts = append(parts, "(dec "+x.toMathInt(bx)+")")
				default:
					ok = false
				}
				argi++
			}
			if cur != "" {
				parts = append(parts, smtStringLit(cur))
			}
		}
	}
	if ok {
		x.externs["modelled: fmt %d as injective separator-free dec()"] = true
		switch len(parts) {
		case 0:
			out = `""`
		case 1:
			out = parts[0]
		default:
			out = "(str.++ " + strings.Join(parts, " ") + ")"
		}
	} else {
		if x.noName > 0 {
			x.refuse("non-constant format inside specification")
		}
		out = x.declare("fmtres", "String")
		x.note("formatting call at %s yields an arbitrary string", pos)
	}
	if name == "fmt.Sprintf" {
		return []*Val{x.scalar(out, types.Typ[types.String])}
	}
	// Fprintf(w, ...): only *strings.Builder writers are modelled
	w := args[0]
	if w.Box != nil {
		w = w.Box
	}
	c := x.comp("F|strings.Builder|$content", "Int", "String")
	r := x.addrRef(w)
	x.set(st, c, sStore(x.get(st, c), r, "(str.++ "+sSel(x.get(st, c), r)+" "+out+")"))
	return []*Val{x.freshOrNamed(tInt, "n", reach, st), x.scalar("0", types.Universe.Lookup("error").Type())}
}

func (x *VC) toMathInt(v *Val) string {
	if x.mode == "bv" {
		b, _ := isIntType(v.GT)
		_, signed := x.intBits(b)
		if signed {
			x.refuse("signed %%d in bv mode")
		}
		return "(bv2nat " + v.T + ")"
	}
	return v.T
}

func (x *VC) constString(v *Val) (string, bool) {
	if v.K != KScalar || v.S != "String" || !strings.HasPrefix(v.T, "\"") {
		return "", false
	}
	s := v.T[1 : len(v.T)-1]
	if strings.Contains(s, `\u{`) {
		return "", false
	}
	return strings.ReplaceAll(s, `""`, `"`), true
}

// boxedArg returns the value boxed into element i of a varargs []interface{}.
func (x *VC) boxedArg(va *Val, i int64) *Val {
	// the array term is a chain of stores; find the store at offset i
	want := x.addS(va.Off, x.ilit(i))
	t := x.resolveDef(va.Arr)
	for strings.HasPrefix(t, "(store ") {
		inner := t[len("(store ") : len(t)-1]
		parts := splitSexprs(inner)
		if len(parts) != 3 {
			return nil
		}
		if parts[1] == want {
			return x.boxOrigin[parts[2]]
		}
		t = x.resolveDef(parts[0])
	}
	return nil
}

func splitSexprs(s string) []string {
	var out []string
	d := 0
	start := -1
	inStr := false
	for i := 0; i < len(s); i++ {
		c := s[i]
		if inStr {
			if c == '"' {
				inStr = false
				if d == 0 {
					out = append(out, s[start:i+1])
					start = -1
				}
			}
			continue
		}
		switch c {
		case '"':
			inStr = true
			if start < 0 {
				start = i
			}
		case '(':
			if d == 0 && start < 0 {
				start = i
			}
			d++
		case ')':
			d--
			if d == 0 {
				out = append(out, s[start:i+1])
				start = -1
			}
		case ' ':
			if d == 0 && start >= 0 {
				out = append(out, s[start:i])
				start = -1
			}
		default:
			if start < 0 {
				start = i
			}
		}
	}
	if start >= 0 {
		out = append(out, s[start:])
	}
	return out
}

// ---- builtins -------------------------------------------------------------------

func (fr *Frame) builtin(b *ssa.Builtin, cc *ssa.CallCommon, args []*Val, st *State, reach, pos string, resT types.Type) *Val {
	x := fr.x
	switch b.Name() {
	case "len", "cap":
		a := args[0]
		switch a.K {
		case KSlice:
			return x.scalar(a.Len, tInt)
		case KScalar:
			if a.S == "String" {
				if x.mode == "bv" {
					return x.scalar("((_ int2bv 64) (str.len "+a.T+"))", tInt)
				}
				return x.scalar("(str.len "+a.T+")", tInt)
			}
			if mt, ok := a.GT.Underlying().(*types.Map); ok {
				_, _, c := x.mapComps(mt)
				l := x.scalar(x.define("maplen", x.idxSort(), sIte(sEq(a.T, "0"), x.ilit(0), sSel(x.get(st, c), a.T))), tInt)
				x.fact(x.cmpS("<=", x.ilit(0), l.T))
				return l
			}
			if _, ok := a.GT.Underlying().(*types.Chan); ok {
				return x.fresh(tInt, "chanlen", reach, st)
			}
		}
		x.refuse("len of %v", a.K)
	case "append":
		s := args[0]
		if s.K == KScalar { // nil
			s = x.zero(resT)
		}
		return x.appendVals(s, args[1], resT, reach)
	case "delete":
		mt := cc.Args[0].Type().Underlying().(*types.Map)
		x.mapDelete(st, mt, args[0].T, args[1])
		return &Val{K: KUnit}
	case "panic":
		x.addObl("safety:explicit-panic", "", pos, reach, "false")
		x.assume(reach, "false")
		return &Val{K: KUnit}
	case "recover":
		// normal (non-panicking) executions: recover() returns nil
		x.note("recover() at %s: only non-panicking executions are followed (panics are separate safety obligations)", pos)
		return x.scalar("0", resT)
	case "print", "println":
		return &Val{K: KUnit}
	case "copy":
		x.refuse("builtin copy")
	case "min", "max":
		x.refuse("builtin %s", b.Name())
	case "ssa:wrapnilchk":
		x.addObl("safety:nil-deref", "wrapper", pos, reach, sNot(sEq(args[0].T, "0")))
		return args[0]
	}
	x.refuse("builtin %s", b.Name())
	return nil
}

// ---- calls by contract -------------------------------------------------------------

func (x *VC) callByContract(callee *ssa.Function, c *Contract, args []*Val, st *State, reach, pos string) []*Val {
	var names []string
	for _, p := range callee.Params {
		names = append(names, p.Name())
	}
	key := fnKeyShort(callee)
	return x.applyContract(callee, c, key, callee.Signature, args, st, reach, pos, names)
}

// applyContract: assert requires, havoc modifies, assume ensures.
func (x *VC) applyContract(callee *ssa.Function, c *Contract, key string, sig *types.Signature, args []*Val, st *State, reach, pos string, pnames []string) []*Val {
	if c.Extern || c.Trusted != "" {
		x.externs["extern contract: "+key] = true
	} else {
		x.callsBy[key] = true
	}
	env := &SEnv{vars: map[string]*Val{}, cur: st, old: st, x: x}
	if callee != nil && callee.Pkg != nil {
		env.pkg = callee.Pkg.Pkg
	} else {
		env.pkg = x.eng.pkgByPath(c.Pkg)
	}
	for i, n := range pnames {
		if i < len(args) {
			env.vars[n] = args[i]
		}
	}
	if x.specMode > 0 {
		// functional use inside a specification: result == E
		for _, e := range c.Ensures {
			if e.E.Op == "bin" && e.E.Name == "==" && e.E.Args[0].Op == "id" && e.E.Args[0].Name == "result" {
				return []*Val{x.evalSpec(e.E.Args[1], env)}
			}
		}
		x.refuse("specification calls %s whose contract has no `ensures result == E` clause", key)
	}
	var before *Oblig
	if len(c.Ensures)+len(c.Assumed) > 0 && x.specMode == 0 {
		if before = x.addObl("cover:before-call", key, pos, reach, "true"); before != nil {
			before.Expect = "sat"
		}
	}
	// a contract of a pointer-receiver method is verified under the implicit precondition
	// `receiver != nil` (verifyFunc), so every call by contract owes it
	if callee != nil && x.specMode == 0 && !c.Extern && c.Trusted == "" && callee.Signature.Recv() != nil && len(args) > 0 && args[0].K == KScalar {
		if _, ok := callee.Signature.Recv().Type().Underlying().(*types.Pointer); ok {
			nn := sNot(sEq(args[0].T, "0"))
			x.addObl("requires@"+key, "receiver != nil", pos, reach, nn)
			x.assume(reach, nn)
		}
	}
	for _, r := range c.Requires {
		cond := x.evalSpec(r.E, env)
		lbl := r.Label
		if lbl == "" {
			lbl = r.Src
		}
		x.addObl("requires@"+key, lbl, pos, reach, cond.T)
		x.assume(reach, cond.T)
	}
	pre := st.clone()
	// havoc
	if c.ModAll {
		x.havocAll(st)
	}
	var freshRes *Val
	{
		if !c.Pure && !c.ModAll {
			x.havocComp(st, x.allocComp()) // any callee may allocate (monotone)
		}
		if c.Fresh && sig.Results().Len() > 0 {
			// the fresh result exists before the frame is applied, so `modifies T.f @ result` can name it
			freshRes = x.scalar(x.allocRef(st, reach, "fresh", sig.Results().At(0).Type()), sig.Results().At(0).Type())
		}
		for _, m := range c.Modifies {
			sel, at := splitModAt(m)
			var atRef string
			if at != "" {
				ae, err := parseSpecExpr(at)
				if err != nil {
					x.refuse("modifies %s: %v", m, err)
				}
				aenv := env
				if freshRes != nil {
					ae2 := *env
					ae2.result = []*Val{freshRes}
					ae2.sig = sig
					aenv = &ae2
				}
				atRef = x.evalSpec(ae, aenv).T
			}
			for _, cp := range x.resolveModifies(sel, env) {
				if atRef != "" && cp.Idx == "Int" && !x.immutableComp(cp.Key) {
					// only the named object changes: H' = H[ref := arbitrary]
					nv := x.declare(cp.Base+"_at", cp.Elem)
					x.set(st, cp, sStore(x.get(st, cp), atRef, nv))
				} else {
					x.havocComp(st, cp)
				}
				if x.writeLog != nil {
					x.writeLog[cp.Key] = true
				}
			}
		}
	}
	if c.ModAll {
		// `modifies *` spares ghost state; ghost state the postconditions talk about is what the callee changes
		seen := map[string]bool{}
		var walk func(e *SExpr)
		walk = func(e *SExpr) {
			if e == nil {
				return
			}
			if e.Op == "sel" && len(e.Args) == 1 && e.Args[0].Op == "id" && e.Args[0].Name == "G" && !seen["G."+e.Name] {
				seen["G."+e.Name] = true
				x.havocComp(st, x.ghostGlobal(e.Name))
			}
			if e.Op == "call" && e.Args[0].Op == "id" {
				switch e.Args[0].Name {
				case "sent":
					if !seen["sent"] {
						seen["sent"] = true
						x.havocComp(st, x.comp("G|chan.sent", "Int", "Int"))
					}
				case "received", "lastReceived":
					if !seen["recv"] {
						seen["recv"] = true
						x.havocComp(st, x.comp("G|chan.recvs", "", "Int"))
						x.havocComp(st, x.comp("G|chan.lastRecv", "", "Int"))
					}
				case "spawned":
					if len(e.Args) > 1 && e.Args[1].Op == "str" && !seen["sp:"+e.Args[1].Name] {
						seen["sp:"+e.Args[1].Name] = true
						x.havocComp(st, x.comp("G|spawned:"+e.Args[1].Name, "", "Int"))
					}
				}
			}
			for _, a := range e.Args {
				walk(a)
			}
		}
		for _, cl := range c.Ensures {
			if !cl.Local {
				walk(cl.E)
			}
		}
		for _, cl := range c.Assumed {
			walk(cl.E)
		}
	}
	// ghost globals assigned at the callee's exit change even under `modifies *` (which spares ghost state)
	for _, g := range c.GhostEx {
		if g.LHS.Op == "sel" && g.LHS.Args[0].Op == "id" && g.LHS.Args[0].Name == "G" {
			x.havocComp(st, x.ghostGlobal(g.LHS.Name))
		}
	}
	var res []*Val
	for i := 0; i < sig.Results().Len(); i++ {
		rt := sig.Results().At(i).Type()
		if c.Fresh && i == 0 {
			if freshRes == nil {
				freshRes = x.scalar(x.allocRef(st, reach, "fresh", rt), rt)
			}
			res = append(res, freshRes)
			continue
		}
		res = append(res, x.fresh(rt, "res", reach, st))
	}
	env2 := &SEnv{vars: env.vars, cur: st, old: pre, x: x, pkg: env.pkg, result: res, sig: sig}
	if callee != nil {
		env2.fn = callee
	}
	for _, e := range c.Ensures {
		if e.Local {
			continue
		}
		cond := x.evalSpec(e.E, env2)
		x.assume(reach, cond.T)
	}
	for _, e := range c.Assumed {
		cond := x.evalSpec(e.E, env2)
		x.assume(reach, cond.T)
		x.externs["assumed postcondition of "+key+" ["+e.Label+"]"] = true
	}
	for _, e := range c.Checks {
		cond := x.evalSpec(e.E, env2)
		x.assume(reach, cond.T)
	}
	// vacuity guard: the assumed postcondition must not contradict what is known at this point
	if len(c.Ensures) > 0 && x.specMode == 0 {
		if o := x.addObl("cover:after-call", key, pos, reach, "true"); o != nil {
			o.Expect = "sat"
			o.Before = before
		}
	}
	return res
}

func (e *Engine) pkgByPath(p string) *types.Package {
	if sp := e.ssaPkgs[p]; sp != nil {
		return sp.Pkg
	}
	return nil
}

// resolveModifies maps a selector of a modifies clause to components.
//
//	Type.field        all components of that field (slices: arr/off/len)
//	map[K]V           the three components of that map type
//	alloc             the allocation set
//	Type.$ghost       ghost field
func (x *VC) resolveModifies(sel string, env *SEnv) []*Comp {
	sel = strings.TrimSpace(sel)
	if sel == "alloc" {
		return []*Comp{x.allocComp()}
	}
	if strings.HasPrefix(sel, "map[") {
		t := x.resolveType(sel, env.pkg)
		mt, ok := t.Underlying().(*types.Map)
		if !ok {
			x.refuse("modifies %s: not a map type", sel)
		}
		d, v, c := x.mapComps(mt)
		return []*Comp{d, v, c}
	}
	if strings.HasPrefix(sel, "G:") {
		// global / ghost global component by key
		key := strings.TrimPrefix(sel, "G:")
		if c, ok := x.comps["G|"+key]; ok {
			return []*Comp{c}
		}
		if key == "chan.sent" {
			return []*Comp{x.comp("G|chan.sent", "Int", "Int")}
		}
		if strings.HasPrefix(key, "spawned:") {
			return []*Comp{x.comp("G|"+key, "", "Int")}
		}
		return []*Comp{x.ghostGlobal(key)}
	}
	if strings.HasPrefix(sel, "*") { // pointer-to-scalar component: *T
		t := x.resolveType(sel[1:], env.pkg)
		s := x.sortOf(t)
		return []*Comp{x.comp("P|"+shortTypeFull(t), "Int", s)}
	}
	dot := strings.LastIndex(sel, ".")
	if dot < 0 {
		x.refuse("modifies %s: expected Type.field", sel)
	}
	tn, fn := sel[:dot], sel[dot+1:]
	t := x.resolveType(tn, env.pkg)
	n := namedOf(t)
	if n == nil {
		x.refuse("modifies %s: unknown type", sel)
	}
	if strings.HasPrefix(fn, "$") {
		for _, g := range x.eng.db.Ghosts {
			if g.Type == n.Obj().Name() && g.Field == fn {
				return []*Comp{x.ghostComp(n, g)}
			}
		}
		x.refuse("modifies %s: unknown ghost field", sel)
	}
	su, ok := n.Underlying().(*types.Struct)
	if !ok {
		x.refuse("modifies %s: not a struct", sel)
	}
	var out []*Comp
	var walk func(u *types.Struct, path []int, names []string, want []string)
	walk = func(u *types.Struct, path []int, names []string, want []string) {
		for i := 0; i < u.NumFields(); i++ {
			f := u.Field(i)
			if want[0] != "*" && f.Name() != want[0] {
				continue
			}
			p := append(append([]int{}, path...), i)
			nn := append(append([]string{}, names...), f.Name())
			ad := &Addr{Kind: AField, Owner: n, Path: p, PathN: nn, ElemT: f.Type()}
			if su2, ok := f.Type().Underlying().(*types.Struct); ok {
				w2 := []string{"*"}
				if len(want) > 1 {
					w2 = want[1:]
				}
				walk(su2, p, nn, w2)
				continue
			}
			if _, ok := f.Type().Underlying().(*types.Slice); ok {
				out = append(out, x.fieldComp(ad, "#arr"), x.fieldComp(ad, "#off"), x.fieldComp(ad, "#len"))
				continue
			}
			if x.sortOf(f.Type()) == "" {
				continue
			}
			out = append(out, x.fieldComp(ad, ""))
		}
	}
	walk(su, nil, nil, strings.Split(fn, "/"))
	if len(out) == 0 {
		x.refuse("modifies %s: no such field", sel)
	}
	return out
}

var _ = constant.MakeBool

var debugOn = os.Getenv("GOVC_DEBUG") != ""

func returnsOnlyLogger(sig *types.Signature) bool {
	if sig.Results().Len() != 1 || sig.Params().Len() != 0 {
		return false
	}
	return shortTypeFull(sig.Results().At(0).Type()) == "*"+repoPrefix+"client/pkg/log.OrdaLog"
}

func isStringer(f *ssa.Function) bool {
	sig := f.Signature
	if sig.Recv() == nil || sig.Results().Len() != 1 {
		return false
	}
	if b, ok := sig.Results().At(0).Type().Underlying().(*types.Basic); !ok || b.Kind() != types.String {
		return false
	}
	switch f.Name() {
	case "String", "Error", "GoString":
		return sig.Params().Len() == 0
	case "ToString", "ToShortString", "GetSummary", "GetDatatypeTag":
		// log-text renderers; the ones of Timestamp/OperationID/CheckPoint are small and are still inlined
		if f.Pkg != nil && f.Pkg.Pkg.Path() == repoPrefix+"client/pkg/model" {
			if r := sig.Recv().Type().String(); strings.HasSuffix(r, ".Timestamp") || strings.HasSuffix(r, ".OperationID") || strings.HasSuffix(r, ".CheckPoint") {
				return false
			}
		}
		return true
	}
	return false
}

// splitModAt splits "Type.field @ expr" (object-granular modifies) into selector and object.
func splitModAt(m string) (string, string) {
	if i := strings.Index(m, " @ "); i >= 0 {
		return strings.TrimSpace(m[:i]), strings.TrimSpace(m[i+3:])
	}
	return m, ""
}
