package main

// Solver portfolio: every obligation is a self-contained SMT-LIB script that is
// raced on z3-new, z3 and cvc5. `unsat` from any solver discharges the
// obligation, `sat` gives a model, everything else is undischarged.

import (
	"bytes"
	"context"
	"fmt"
	"os"
	"os/exec"
	"path/filepath"
	"regexp"
	"strings"
	"sync"
	"sync/atomic"
	"time"
)

type SolverResult struct {
	Status  string // unsat | sat | unknown | timeout | error
	Backend string
	Ms      int64
	Model   map[string]string // name -> value text (only for sat)
	Raw     string
}

var solverCmds = []struct {
	name string
	argv func(file string, toSec int) []string
}{
	{"z3-new-5.1.0", func(f string, t int) []string {
		return append([]string{"z3-new", fmt.Sprintf("-T:%d", t)}, append(z3Seed(), f)...)
	}},
	{"z3-4.8.12", func(f string, t int) []string {
		return append([]string{"z3", fmt.Sprintf("-T:%d", t)}, append(z3Seed(), f)...)
	}},
	{"cvc5-1.0", func(f string, t int) []string {
		a := []string{"cvc5", "--lang=smt2", fmt.Sprintf("--tlimit=%d", t*1000), "--strings-exp", "--produce-models"}
		if sd := solverSeed.Load(); sd != 0 {
			a = append(a, fmt.Sprintf("--seed=%d", sd))
		}
		return append(a, f)
	}},
}

// solverSeed is 0 for the first attempt; the retry rounds of dischargeAll change it, so that an obligation whose
// proof search went astray (heuristics, machine load) is attempted again on a different search path.
var solverSeed atomic.Int64

func z3Seed() []string {
	if sd := solverSeed.Load(); sd != 0 {
		return []string{fmt.Sprintf("smt.random_seed=%d", sd), fmt.Sprintf("sat.random_seed=%d", sd)}
	}
	return nil
}

var solverTimeMu sync.Mutex
var solverTime = map[string]float64{}

// smtScratch is where scripts are written; removed by the driver at exit.
var smtScratch string

func scratchDir() string {
	if smtScratch == "" {
		d, err := os.MkdirTemp("/var/tmp", "govc-")
		if err != nil {
			d, err = os.MkdirTemp("", "govc-")
			if err != nil {
				panic(err)
			}
		}
		smtScratch = d
	}
	return smtScratch
}

var fileCtr int
var fileCtrMu sync.Mutex

// usesZ3Only reports script features cvc5 1.0 rejects.
func usesZ3Only(script string) bool {
	return strings.Contains(script, "(lambda ") || strings.Contains(script, "bv2int") || strings.Contains(script, "int2bv")
}

// runSolvers races the portfolio. getValues is a list of terms to evaluate on sat.
func runSolvers(script string, getValues []string, toSec int, wantAll bool) (SolverResult, []SolverResult) {
	fileCtrMu.Lock()
	fileCtr++
	id := fileCtr
	fileCtrMu.Unlock()
	dir := scratchDir()
	var sb strings.Builder
	sb.WriteString(script)
	sb.WriteString("(check-sat)\n")
	if len(getValues) > 0 {
		// one get-value per term: a failing term (e.g. quantified) must not hide the others
		for _, g := range getValues {
			fmt.Fprintf(&sb, "(get-value (%s))\n", g)
		}
	}
	full := sb.String()
	ctx, cancel := context.WithCancel(context.Background())
	defer cancel()
	type res struct{ r SolverResult }
	ch := make(chan SolverResult, len(solverCmds))
	n := 0
	for _, sc := range solverCmds {
		if strings.HasPrefix(sc.name, "cvc5") && usesZ3Only(full) {
			continue
		}
		n++
		sc := sc
		go func() {
			text := full
			if strings.HasPrefix(sc.name, "cvc5") {
				text = "(set-option :produce-models true)\n" + strings.Replace(text, "(set-option :produce-models true)\n", "", 1)
			}
			f := filepath.Join(dir, fmt.Sprintf("q%d-%s.smt2", id, sc.name))
			_ = os.WriteFile(f, []byte(text), 0o644)
			defer os.Remove(f)
			start := time.Now()
			cctx, ccancel := context.WithTimeout(ctx, time.Duration(toSec+2)*time.Second)
			defer ccancel()
			argv := sc.argv(f, toSec)
			cmd := exec.CommandContext(cctx, argv[0], argv[1:]...)
			var out bytes.Buffer
			cmd.Stdout = &out
			cmd.Stderr = &out
			_ = cmd.Run()
			ms := time.Since(start).Milliseconds()
			solverTimeMu.Lock()
			solverTime[sc.name] += float64(ms) / 1000
			solverTimeMu.Unlock()
			raw := out.String()
			first := strings.TrimSpace(strings.SplitN(raw, "\n", 2)[0])
			r := SolverResult{Backend: sc.name, Ms: ms, Raw: raw}
			switch first {
			case "unsat":
				r.Status = "unsat"
			case "sat":
				r.Status = "sat"
				r.Model = parseGetValues(raw, getValues)
			case "unknown":
				r.Status = "unknown"
			case "timeout":
				r.Status = "timeout"
			default:
				if cctx.Err() != nil {
					r.Status = "timeout"
				} else {
					r.Status = "error"
				}
			}
			ch <- r
		}()
	}
	var all []SolverResult
	var best SolverResult
	best.Status = "unknown"
	for i := 0; i < n; i++ {
		r := <-ch
		all = append(all, r)
		if r.Status == "unsat" || r.Status == "sat" {
			if best.Status != "unsat" && best.Status != "sat" {
				best = r
			}
			if !wantAll {
				cancel()
				return best, all
			}
		} else if best.Status != "unsat" && best.Status != "sat" {
			if best.Backend == "" || (best.Status == "error" && r.Status != "error") {
				best = r
			}
		}
	}
	return best, all
}

var gvRe = regexp.MustCompile(`^\(\((.*)\)\)$`)

// parseGetValues extracts "((term value))" lines in order.
func parseGetValues(raw string, terms []string) map[string]string {
	m := map[string]string{}
	lines := strings.Split(raw, "\n")
	// join multi-line s-expressions
	var exprs []string
	depth := 0
	cur := ""
	for _, l := range lines[1:] {
		if strings.TrimSpace(l) == "" && depth == 0 {
			continue
		}
		cur += l + " "
		depth += strings.Count(l, "(") - strings.Count(l, ")")
		if depth <= 0 {
			exprs = append(exprs, strings.TrimSpace(cur))
			cur = ""
			depth = 0
		}
	}
	i := 0
	for _, e := range exprs {
		if i >= len(terms) {
			break
		}
		if strings.HasPrefix(e, "(error") {
			m[terms[i]] = "?"
			i++
			continue
		}
		if strings.HasPrefix(e, "((") {
			t := terms[i]
			inner := strings.TrimSuffix(strings.TrimPrefix(e, "(("), "))")
			// inner = "<term> <value>"; term text may be normalised by the solver, so cut by balance
			val := cutSecond(inner)
			m[t] = strings.TrimSpace(val)
			i++
		}
	}
	return m
}

// cutSecond returns the second s-expression of "a b".
func cutSecond(s string) string {
	s = strings.TrimSpace(s)
	if s == "" {
		return ""
	}
	if s[0] == '(' {
		d := 0
		for i, c := range s {
			if c == '(' {
				d++
			} else if c == ')' {
				d--
				if d == 0 {
					return s[i+1:]
				}
			}
		}
		return ""
	}
	if s[0] == '"' {
		for i := 1; i < len(s); i++ {
			if s[i] == '"' {
				if i+1 < len(s) && s[i+1] == '"' {
					i++
					continue
				}
				return s[i+1:]
			}
		}
	}
	if s[0] == '|' {
		j := strings.Index(s[1:], "|")
		if j >= 0 {
			return s[j+2:]
		}
	}
	j := strings.IndexAny(s, " \t")
	if j < 0 {
		return ""
	}
	return s[j+1:]
}

// ---- small term helpers -------------------------------------------------

func sAnd(xs ...string) string {
	var ys []string
	for _, x := range xs {
		if x == "true" || x == "" {
			continue
		}
		if x == "false" {
			return "false"
		}
		ys = append(ys, x)
	}
	switch len(ys) {
	case 0:
		return "true"
	case 1:
		return ys[0]
	}
	return "(and " + strings.Join(ys, " ") + ")"
}

func sOr(xs ...string) string {
	var ys []string
	for _, x := range xs {
		if x == "false" || x == "" {
			continue
		}
		if x == "true" {
			return "true"
		}
		ys = append(ys, x)
	}
	switch len(ys) {
	case 0:
		return "false"
	case 1:
		return ys[0]
	}
	return "(or " + strings.Join(ys, " ") + ")"
}

func sNot(x string) string {
	if x == "true" {
		return "false"
	}
	if x == "false" {
		return "true"
	}
	if strings.HasPrefix(x, "(not ") && balancedTail(x[5:]) {
		return x[5 : len(x)-1]
	}
	return "(not " + x + ")"
}

func balancedTail(s string) bool {
	// s = "<expr>)" ; check <expr> is a single balanced expression
	d := 0
	for i, c := range s {
		if c == '(' {
			d++
		} else if c == ')' {
			d--
			if d < 0 {
				return i == len(s)-1
			}
		}
	}
	return false
}

func sImp(a, b string) string {
	if a == "true" {
		return b
	}
	if a == "false" || b == "true" {
		return "true"
	}
	return "(=> " + a + " " + b + ")"
}

func sIte(c, a, b string) string {
	if c == "true" {
		return a
	}
	if c == "false" {
		return b
	}
	if a == b {
		return a
	}
	return "(ite " + c + " " + a + " " + b + ")"
}

func sEq(a, b string) string {
	if a == b {
		return "true"
	}
	return "(= " + a + " " + b + ")"
}

func sSel(a, i string) string      { return "(select " + a + " " + i + ")" }
func sStore(a, i, v string) string { return "(store " + a + " " + i + " " + v + ")" }

func smtStringLit(s string) string {
	var sb strings.Builder
	sb.WriteByte('"')
	for _, r := range s {
		switch {
		case r == '"':
			sb.WriteString(`""`)
		case r == '\\':
			sb.WriteString(`\u{5c}`)
		case r < 32 || r > 126:
			fmt.Fprintf(&sb, `\u{%x}`, r)
		default:
			sb.WriteRune(r)
		}
	}
	sb.WriteByte('"')
	return sb.String()
}

var identRe = regexp.MustCompile(`[^A-Za-z0-9_]`)

func sanitize(s string) string { return identRe.ReplaceAllString(s, "_") }
