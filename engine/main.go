package main

import (
	"flag"

	"fmt"
	"go/types"
	"golang.org/x/tools/go/ssa"
	"os"
	"path/filepath"
	"sort"
	"strings"
	"time"
)

// repoRoot is /repo for every registered check. GOVC_REPO / GOVC_OUT exist only so that seeded changes can be
// evaluated in parallel on scratch worktrees without touching /repo or the committed evidence (tools/eval_seed.sh).
var repoRoot = envOr("GOVC_REPO", "/repo")

const verifRoot = "/verif"

var outRoot = envOr("GOVC_OUT", verifRoot)

func envOr(k, d string) string {
	if v := os.Getenv(k); v != "" {
		return v
	}
	return d
}

func pkgPathOfDir(dir string) string {
	rel, err := filepath.Rel(repoRoot, dir)
	if err != nil {
		return ""
	}
	return "github.com/orda-io/orda/" + filepath.ToSlash(rel)
}

// loadSpecs reads every contract file: /repo/**/zz_contracts_verif.go, /verif/contracts/*.spec and the lemma overlays.
func loadSpecs() (*SpecDB, map[string][]byte, error) {
	db := newSpecDB()
	overlay := map[string][]byte{}
	err := filepath.Walk(repoRoot, func(p string, info os.FileInfo, err error) error {
		if err != nil {
			return nil
		}
		if info.IsDir() {
			if info.Name() == ".git" {
				return filepath.SkipDir
			}
			return nil
		}
		if info.Name() == "zz_contracts_verif.go" {
			return db.loadFile(p, pkgPathOfDir(filepath.Dir(p)))
		}
		return nil
	})
	if err != nil {
		return nil, nil, err
	}
	specs, _ := filepath.Glob(filepath.Join(verifRoot, "contracts", "*.spec"))
	sort.Strings(specs)
	for _, s := range specs {
		if err := db.loadFile(s, ""); err != nil {
			return nil, nil, err
		}
	}
	// lemma overlays: /verif/lemmas/<path below /repo>/zz_lemmas_*.go
	lroot := filepath.Join(verifRoot, "lemmas")
	_ = filepath.Walk(lroot, func(p string, info os.FileInfo, e error) error {
		if e != nil || info.IsDir() || !strings.HasSuffix(p, ".go") {
			return nil
		}
		rel, _ := filepath.Rel(lroot, p)
		target := filepath.Join(repoRoot, rel)
		data, rerr := os.ReadFile(p)
		if rerr != nil {
			err = rerr
			return nil
		}
		overlay[target] = data
		if lerr := db.loadText(p, string(data), pkgPathOfDir(filepath.Dir(target))); lerr != nil {
			err = lerr
		}
		return nil
	})
	if err == nil {
		err = db.expandModifies()
	}
	return db, overlay, err
}

func moduleOf(pkg string) string {
	switch {
	case strings.HasPrefix(pkg, "github.com/orda-io/orda/client/"):
		return filepath.Join(repoRoot, "client")
	case strings.HasPrefix(pkg, "github.com/orda-io/orda/server/"):
		return filepath.Join(repoRoot, "server")
	}
	return ""
}

func main() {
	if len(os.Args) < 2 {
		fmt.Fprintln(os.Stderr, "usage: govc check|verify|list ...")
		os.Exit(2)
	}
	defer func() {
		if smtScratch != "" {
			os.RemoveAll(smtScratch)
		}
	}()
	switch os.Args[1] {
	case "verify":
		fs := flag.NewFlagSet("verify", flag.ExitOnError)
		fn := fs.String("func", "", "pkgpath::name (substring match)")
		to := fs.Int("timeout", 10, "solver timeout (s)")
		dump := fs.Bool("dump", false, "dump scripts of failed obligations")
		verbose := fs.Bool("v", false, "print every obligation")
		_ = fs.Parse(os.Args[2:])
		code := cmdVerify(*fn, *to, *dump, *verbose)
		if smtScratch != "" {
			os.RemoveAll(smtScratch)
		}
		os.Exit(code)
	case "check":
		fs := flag.NewFlagSet("check", flag.ExitOnError)
		prop := fs.String("property", "", "property id")
		tier := fs.String("tier", "quick", "quick|thorough")
		_ = fs.Parse(os.Args[2:])
		code := cmdCheck(*prop, *tier)
		if smtScratch != "" {
			os.RemoveAll(smtScratch)
		}
		os.Exit(code)
	case "impls":
		os.Exit(cmdImpls(os.Args[2:]))
	default:
		fmt.Fprintln(os.Stderr, "unknown command")
		os.Exit(2)
	}
}

func cmdVerify(pat string, to int, dump, verbose bool) int {
	t0 := time.Now()
	db, overlay, err := loadSpecs()
	if err != nil {
		fmt.Fprintln(os.Stderr, "spec error:", err)
		return 2
	}
	// group contracts by module
	byMod := map[string][]*Contract{}
	for k, c := range db.Contracts {
		if c.Extern || (c.Trusted != "" && len(c.Checks) == 0 && !c.hasStructural()) || !strings.Contains(k, pat) {
			continue
		}
		m := moduleOf(c.Pkg)
		if m == "" {
			continue
		}
		byMod[m] = append(byMod[m], c)
	}
	code := 0
	// pure lemmas matching the pattern are proved with the client module loaded
	var lms []*Lemma
	for _, lm := range db.Lemmas {
		if !lm.Axiom && strings.Contains("lemma:"+lm.Name, pat) {
			lms = append(lms, lm)
		}
	}
	if len(lms) > 0 {
		if _, ok := byMod[filepath.Join(repoRoot, "client")]; !ok {
			byMod[filepath.Join(repoRoot, "client")] = nil
		}
	}
	for mod, cs := range byMod {
		pkgs := map[string]bool{}
		for _, c := range cs {
			pkgs[c.Pkg] = true
		}
		pats := []string{"./..."}
		eng, err := loadEngine(mod, pats, overlay, db)
		if err != nil {
			fmt.Fprintln(os.Stderr, "load error:", err)
			return 2
		}
		fmt.Printf("loaded %s %v in %.1fs\n", mod, pats, time.Since(t0).Seconds())
		sort.Slice(cs, func(i, j int) bool { return cs[i].Name < cs[j].Name })
		var frs []*FuncResult
		if mod == filepath.Join(repoRoot, "client") {
			for _, lm := range lms {
				var anyFn *ssa.Function
				for _, f := range eng.fnIndex {
					if f.Pkg != nil && f.Pkg.Pkg.Path() == lm.Pkg {
						anyFn = f
						break
					}
				}
				frs = append(frs, eng.verifyLemma(lm, anyFn))
			}
		}
		for _, c := range cs {
			fns := eng.targets(c)
			if len(fns) == 0 {
				fmt.Printf("UNSUPPORTED: contract for unknown function %s::%s (%s:%d)\n", c.Pkg, c.Name, c.File, c.Line)
				code = 2
				continue
			}
			for _, fn := range fns {
				frs = append(frs, eng.verifyFunc(fn, c))
			}
		}
		dischargeAll(frs, to, 6, false)
		for _, fr := range frs {
			if fr.Refused != "" {
				fmt.Printf("REFUSED %s: %s\n", fr.Key, fr.Refused)
				code = 1
			}
			okN := 0
			for _, o := range fr.Obls {
				if o.ok() {
					okN++
				}
			}
			fmt.Printf("%s [%s]: %d/%d obligations ok\n", fr.Key, fr.Mode, okN, len(fr.Obls))
			for _, o := range fr.Obls {
				if dumpAll != "" && strings.Contains(o.Name, dumpAll) {
					f := filepath.Join("/var/tmp", sanitize(o.Name)+".smt2")
					_ = os.WriteFile(f, []byte(fr.VC.scriptFor(o)+"(check-sat)\n"), 0o644)
					fmt.Printf("   dumped %s\n", f)
				}
				if o.ok() && !verbose {
					continue
				}
				if o.Expect == "sat" && o.Result.Status != "unsat" && !verbose {
					continue // cover query inconclusive (quantifiers): not a failure
				}
				if o.Expect == "sat" && o.Result.Status == "unsat" && (o.Kind == "cover:before-call" || (o.Kind == "cover:after-call" && (o.Before == nil || o.Before.Result.Status != "sat"))) && !verbose {
					continue // dead code under the contract
				}
				fmt.Printf("   %-6s %-8s %s  @%s (%s, %dms)\n", map[bool]string{true: "ok", false: "FAIL"}[o.ok()], o.Result.Status, o.Name, o.Pos, o.Result.Backend, o.Result.Ms)
				if !o.ok() {
					code = 1
					if o.Result.Status == "sat" {
						var ks []string
						for k := range o.Result.Model {
							ks = append(ks, k)
						}
						sort.Strings(ks)
						for _, k := range ks {
							fmt.Printf("          %s = %s\n", fr.VC.modelLbl[k], o.Result.Model[k])
						}
					}
					if o.Result.Status == "error" {
						fmt.Printf("          %s\n", strings.SplitN(o.Result.Raw, "\n", 3)[0])
					}
					if dump {
						f := filepath.Join("/var/tmp", sanitize(o.Name)+".smt2")
						_ = os.WriteFile(f, []byte(o.Script+"(check-sat)\n"), 0o644)
						fmt.Printf("          script: %s\n", f)
					}
				}
			}
			for _, n := range fr.Notes {
				if verbose {
					fmt.Printf("   note: %s\n", n)
				}
			}
		}
	}
	fmt.Printf("done in %.1fs\n", time.Since(t0).Seconds())
	return code
}

func cmdImpls(names []string) int {
	db, overlay, err := loadSpecs()
	if err != nil {
		fmt.Println(err)
		return 2
	}
	eng, err := loadEngine(filepath.Join(repoRoot, "client"), []string{"./..."}, overlay, db)
	if err != nil {
		fmt.Println(err)
		return 2
	}
	for _, n := range eng.named {
		if _, ok := n.Underlying().(*types.Interface); !ok {
			continue
		}
		for _, want := range names {
			if n.Obj().Name() == want {
				fmt.Printf("%s:\n", shortTypeFull(n))
				for _, t := range eng.implementers(n) {
					fmt.Printf("    %s\n", shortType(t))
				}
			}
		}
	}
	return 0
}

var dumpAll = os.Getenv("GOVC_DUMP")
