package main

// Contract files: structured `//@` comments. In /repo they live in comment-only
// files `zz_contracts_verif.go` (build tag verif). Extern (assumed) contracts on
// dependencies live in /verif/contracts/*.spec with the same syntax.

import (
	"fmt"
	"os"
	"path/filepath"
	"strconv"
	"strings"
	"unicode"
)

type SExpr struct {
	Op   string // id num str nil true false old call sel idx not neg bin forall exists typeis ite
	Name string // identifier / operator / field / literal text
	Args []*SExpr
	Vars []QVar
	Src  string
}

type QVar struct {
	Name string
	Type string
	In   *SExpr // `forall x in s :: ...`: x ranges over the elements of slice s
}

func (e *SExpr) String() string {
	if e == nil {
		return "<nil>"
	}
	switch e.Op {
	case "id", "num", "nil", "true", "false":
		return e.Name
	case "str":
		return strconv.Quote(e.Name)
	case "old":
		return "old(" + e.Args[0].String() + ")"
	case "call":
		var as []string
		for _, a := range e.Args[1:] {
			as = append(as, a.String())
		}
		return e.Args[0].String() + "(" + strings.Join(as, ", ") + ")"
	case "sel":
		return e.Args[0].String() + "." + e.Name
	case "idx":
		return e.Args[0].String() + "[" + e.Args[1].String() + "]"
	case "not":
		return "!" + e.Args[0].String()
	case "neg":
		return "-" + e.Args[0].String()
	case "bin":
		return "(" + e.Args[0].String() + " " + e.Name + " " + e.Args[1].String() + ")"
	case "forall", "exists":
		var vs []string
		for _, v := range e.Vars {
			vs = append(vs, v.Name+" "+v.Type)
		}
		return e.Op + " " + strings.Join(vs, ", ") + " :: " + e.Args[0].String()
	case "typeis":
		return e.Args[0].String() + ".(" + e.Name + ")"
	case "cast":
		return e.Args[0].String() + ".(as " + e.Name + ")"
	}
	return e.Op
}

type Clause struct {
	Label string
	E     *SExpr
	Src   string
	Local bool // ensures-local: mentions locals of the body; checked at return, not assumed by callers
}

type LoopSpec struct {
	Assume []Clause // assumed at the loop head, never proved
	Inv    []Clause
	Dec    *SExpr
}

type GhostAssign struct {
	LHS *SExpr
	RHS *SExpr
	Src string
}

type Contract struct {
	Pkg            string // package path
	Name           string // relative function name, e.g. (*mapSnapshot).putCommonWithTimedType
	Extern         bool   // assumed, not checked
	Lemma          bool   // proof function (lives in overlay)
	Mode           string // bv | math
	NoOvf          string // reason if overflow obligations are assumed away in math mode
	Requires       []Clause
	Ensures        []Clause
	Callback       map[string][]Clause // assumed postconditions of calls through a function-typed parameter
	Assumed        []Clause            // postconditions assumed at call sites but not checked on the body (listed as assumptions)
	Checks         []Clause            // trusted contracts: the clauses that ARE proved on the body (the `ensures` of a trusted contract stay assumed)
	Modifies       []string            // component selectors; "*" = everything; empty = nothing
	ModAll         bool
	Loops          map[int]*LoopSpec
	GhostEx        []GhostAssign
	Pure           bool // extern: no heap effect (same as empty modifies), result fresh
	Fresh          bool // extern: result is a freshly allocated object
	File           string
	Line           int
	Replay         string
	Opaque         bool // never inline, even at spec level
	NoPanic        bool // extern: listed for documentation
	Props          []string
	Trusted        string // non-empty: contract is assumed, reason
	ReplayIn       []ReplayInput
	Targets        []string            // interface-method contracts: implementers to verify (others stay assumed)
	ReplayBd       []*SExpr            // extra constraints used only to obtain small counterexamples for replay
	Uses           []string            // lemmas / axioms assumed while verifying this function
	Dispatch       map[string][]string // interface type name -> allowed dynamic types (proved at each invoke)
	Recovers       bool                // the function must call the builtin recover() directly (it is meant to run deferred)
	CallsAfter     [][2]string         // structural: (A, B) every call of B is dominated by a call of A
	CallsInEntry   []string            // structural: static calls that the entry block must contain
	AlwaysCalls    []string            // structural: every return is dominated by a call of the named function / interface method
	AlwaysSends    bool                // structural: every return is dominated by a blocking channel send of the function itself
	StructuralOnly string              // reason why the body is not executed symbolically (only structural obligations are decided)
	ClosureFirst   [][2]string         // (ordinal of the function literal, callee) structural obligations
	Bounded        string              // name of the bounded stand-in harness (no deductive verification of this function)
	BoundedWhy     string
	PanicAssumed   bool     // trusted contracts only: panic(...) sites of the body are assumed unreachable (listed as an assumption)
	Defers         []string // functions this function must defer unconditionally (in its entry block)
}

type ReplayInput struct {
	Name string
	E    *SExpr
}

type PredDef struct {
	Pkg    string
	Name   string
	Params []QVar
	Body   *SExpr
	Src    string
}

type GhostField struct {
	Pkg   string
	Type  string // struct type name
	Field string
	Sort  string // int | bool | ref | real | string | array<int,ref> ...
	Log   bool   // `ghost log field`: a record of what was sent to the environment; exempt from frame conditions
}

type TypeInv struct {
	Pkg   string
	Type  string
	Field string
	Alts  []string
}

type FuncDecl struct {
	Pkg    string
	Name   string
	Params []QVar
	Sort   string
}

type Lemma struct {
	Pkg   string
	Name  string
	E     *SExpr
	Axiom bool // assumed (listed), not proved
	Using []string
	Apply []*SExpr // explicit applications name(args...) of used lemmas/axioms
	Props []string
	Src   string
	File  string
	Line  int
}

type SpecDB struct {
	Lemmas    map[string]*Lemma
	Immutable map[string]bool // "pkgpath.Type|field": never stored to outside the allocating function
	Funcs     map[string]*FuncDecl
	Contracts map[string]*Contract // key: pkg + "::" + name
	Preds     map[string]*PredDef  // key: name (global namespace; pkg kept for type resolution)
	Ghosts    []*GhostField
	TypeInvs  []*TypeInv
	Files     []string
	Scan      []string // mechanical assumption scan
}

func newSpecDB() *SpecDB {
	return &SpecDB{Contracts: map[string]*Contract{}, Preds: map[string]*PredDef{}, Funcs: map[string]*FuncDecl{}, Immutable: map[string]bool{}, Lemmas: map[string]*Lemma{}}
}

func (db *SpecDB) loadDir(root string, pattern string) error {
	return filepath.Walk(root, func(p string, info os.FileInfo, err error) error {
		if err != nil {
			return nil
		}
		if info.IsDir() {
			if info.Name() == ".git" || info.Name() == "node_modules" {
				return filepath.SkipDir
			}
			return nil
		}
		if ok, _ := filepath.Match(pattern, info.Name()); ok {
			if err := db.loadFile(p, ""); err != nil {
				return err
			}
		}
		return nil
	})
}

// loadFile parses one contract file. pkgHint is the import path for files that
// do not carry a `//@ package` line (Go files: derived from the directory).
func (db *SpecDB) loadFile(path string, pkgHint string) error {
	data, err := os.ReadFile(path)
	if err != nil {
		return err
	}
	return db.loadText(path, string(data), pkgHint)
}

func (db *SpecDB) loadText(path, text, pkgHint string) error {
	db.Files = append(db.Files, path)
	pkg := pkgHint
	var cur *Contract
	var lastLemma *Lemma
	lines := strings.Split(text, "\n")
	// join continuation lines ("//@ +")
	type L struct {
		s string
		n int
	}
	var ls []L
	for i, l := range lines {
		t := strings.TrimSpace(l)
		if !strings.HasPrefix(t, "//@") {
			continue
		}
		t = strings.TrimSpace(strings.TrimPrefix(t, "//@"))
		if strings.HasPrefix(t, "+") && len(ls) > 0 {
			ls[len(ls)-1].s += " " + strings.TrimSpace(t[1:])
			continue
		}
		ls = append(ls, L{t, i + 1})
	}
	fail := func(n int, f string, a ...interface{}) error {
		return fmt.Errorf("%s:%d: %s", path, n, fmt.Sprintf(f, a...))
	}
	for _, l := range ls {
		t := l.s
		if t == "" {
			continue
		}
		// strip trailing comment " // ..." outside strings
		if i := strings.Index(t, " //"); i >= 0 && !strings.Contains(t[:i], "\"") {
			t = strings.TrimSpace(t[:i])
		}
		word, rest := splitWord(t)
		switch word {
		case "package":
			pkg = strings.TrimSpace(rest)
			cur = nil
		case "extern", "func", "proof":
			c := &Contract{Pkg: pkg, Mode: "math", Loops: map[int]*LoopSpec{}, File: path, Line: l.n}
			if word == "extern" {
				c.Extern = true
				w2, r2 := splitWord(rest)
				if w2 != "func" {
					return fail(l.n, "expected `extern func`")
				}
				rest = r2
				db.Scan = append(db.Scan, fmt.Sprintf("extern %s %s (%s:%d)", pkg, strings.TrimSpace(rest), filepath.Base(path), l.n))
			}
			if word == "proof" {
				c.Lemma = true
			}
			c.Name = strings.TrimSpace(rest)
			if c.Name == "" {
				return fail(l.n, "missing function name")
			}
			key := c.Pkg + "::" + c.Name
			if _, dup := db.Contracts[key]; dup {
				return fail(l.n, "duplicate contract for %s", key)
			}
			db.Contracts[key] = c
			cur = c
		case "pred":
			// pred name(a T, b U) = expr
			eq := strings.Index(rest, "=")
			lp := strings.Index(rest, "(")
			if lp < 0 || eq < 0 {
				return fail(l.n, "bad pred")
			}
			// find matching ) of the parameter list
			rp := matchParen(rest, lp)
			if rp < 0 {
				return fail(l.n, "bad pred params")
			}
			eq = rp + strings.Index(rest[rp:], "=")
			name := strings.TrimSpace(rest[:lp])
			var params []QVar
			for _, p := range splitTop(rest[lp+1:rp], ',') {
				p = strings.TrimSpace(p)
				if p == "" {
					continue
				}
				w, r := splitWord(p)
				params = append(params, QVar{Name: w, Type: strings.TrimSpace(r)})
			}
			body, err := parseSpecExpr(rest[eq+1:])
			if err != nil {
				return fail(l.n, "pred %s: %v", name, err)
			}
			db.Preds[name] = &PredDef{Pkg: pkg, Name: name, Params: params, Body: body, Src: rest}
			cur = nil
		case "axiom", "lemma":
			// axiom name: expr          (assumed, listed)
			// lemma name [props C..] [using a, b]: expr     (proved from the listed axioms/lemmas)
			col := strings.Index(rest, ":")
			if col < 0 {
				return fail(l.n, "%s name: expr", word)
			}
			head := strings.Fields(rest[:col])
			if len(head) == 0 {
				return fail(l.n, "%s needs a name", word)
			}
			lm := &Lemma{Pkg: pkg, Name: head[0], Axiom: word == "axiom", Src: strings.TrimSpace(rest[col+1:]), File: path, Line: l.n}
			mode := ""
			for _, h := range head[1:] {
				switch h {
				case "props", "using":
					mode = h
				default:
					h = strings.Trim(h, ",")
					if mode == "props" {
						lm.Props = append(lm.Props, h)
					} else if mode == "using" {
						lm.Using = append(lm.Using, h)
					}
				}
			}
			e, err := parseSpecExpr(rest[col+1:])
			if err != nil {
				return fail(l.n, "%v", err)
			}
			lm.E = e
			db.Lemmas[lm.Name] = lm
			lastLemma = lm
			if lm.Axiom {
				db.Scan = append(db.Scan, fmt.Sprintf("axiom %s (%s:%d): %s", lm.Name, filepath.Base(path), l.n, lm.Src))
			}
			cur = nil
		case "apply":
			// apply name(args...)   — instantiate a used lemma/axiom on terms over the last lemma's variables
			if lastLemma == nil || lastLemma.Axiom {
				return fail(l.n, "apply needs a preceding lemma")
			}
			ae, err := parseSpecExpr(rest)
			if err != nil || ae.Op != "call" || ae.Args[0].Op != "id" {
				return fail(l.n, "apply name(args...): %v", err)
			}
			lastLemma.Apply = append(lastLemma.Apply, ae)
			cur = nil
		case "immutable":
			for _, f := range strings.Split(rest, ",") {
				f = strings.TrimSpace(f)
				dot := strings.LastIndex(f, ".")
				if dot < 0 {
					return fail(l.n, "immutable Type.field")
				}
				db.Immutable["F|"+pkg+"."+f[:dot]+"|"+f[dot+1:]] = true
			}
			cur = nil
		case "function":
			// function name(a T, b U) sort      (uninterpreted)
			lp := strings.Index(rest, "(")
			if lp < 0 {
				return fail(l.n, "bad function declaration")
			}
			rp := matchParen(rest, lp)
			if rp < 0 {
				return fail(l.n, "bad function params")
			}
			fd := &FuncDecl{Pkg: pkg, Name: strings.TrimSpace(rest[:lp]), Sort: strings.TrimSpace(rest[rp+1:])}
			for _, p := range splitTop(rest[lp+1:rp], ',') {
				p = strings.TrimSpace(p)
				if p == "" {
					continue
				}
				w, r := splitWord(p)
				fd.Params = append(fd.Params, QVar{Name: w, Type: strings.TrimSpace(r)})
			}
			db.Funcs[fd.Name] = fd
			db.Scan = append(db.Scan, fmt.Sprintf("uninterpreted function %s (%s:%d)", fd.Name, filepath.Base(path), l.n))
			cur = nil
		case "ghost":
			// ghost field Type.name sort
			w2, r2 := splitWord(rest)
			isLog := false
			if w2 == "log" {
				isLog = true
				w2, r2 = splitWord(r2)
			}
			if w2 != "field" {
				return fail(l.n, "expected `ghost field`")
			}
			w3, r3 := splitWord(r2)
			dot := strings.LastIndex(w3, ".")
			if dot < 0 {
				return fail(l.n, "ghost field needs Type.name")
			}
			db.Ghosts = append(db.Ghosts, &GhostField{Pkg: pkg, Type: w3[:dot], Field: w3[dot+1:], Sort: strings.TrimSpace(r3), Log: isLog})
			cur = nil
		case "typeinv":
			// typeinv Type.field : A | B
			col := strings.Index(rest, ":")
			if col < 0 {
				return fail(l.n, "bad typeinv")
			}
			tf := strings.TrimSpace(rest[:col])
			dot := strings.LastIndex(tf, ".")
			ti := &TypeInv{Pkg: pkg, Type: tf[:dot], Field: tf[dot+1:]}
			for _, a := range strings.Split(rest[col+1:], "|") {
				ti.Alts = append(ti.Alts, strings.TrimSpace(a))
			}
			db.TypeInvs = append(db.TypeInvs, ti)
			cur = nil
		default:
			if cur == nil {
				return fail(l.n, "clause `%s` outside a func block", word)
			}
			label := ""
			if i := strings.Index(word, "["); i >= 0 && strings.HasSuffix(word, "]") {
				label = word[i+1 : len(word)-1]
				word = word[:i]
			}
			switch word {
			case "mode":
				fs := strings.Fields(rest)
				if len(fs) == 0 || (fs[0] != "bv" && fs[0] != "math" && fs[0] != "wrap") {
					return fail(l.n, "mode bv|math|wrap")
				}
				cur.Mode = fs[0]
				if len(fs) > 1 && fs[1] == "nooverflow" {
					cur.NoOvf = strings.Join(fs[2:], " ")
					if cur.NoOvf == "" {
						cur.NoOvf = "assumed"
					}
					db.Scan = append(db.Scan, fmt.Sprintf("nooverflow-assumed %s::%s: %s", cur.Pkg, cur.Name, cur.NoOvf))
				}
			case "requires", "ensures", "assumes", "ensures-local", "checks":
				e, err := parseSpecExpr(rest)
				if err != nil {
					return fail(l.n, "%v", err)
				}
				cl := Clause{Label: label, E: e, Src: rest}
				switch word {
				case "requires":
					cur.Requires = append(cur.Requires, cl)
				case "ensures":
					cur.Ensures = append(cur.Ensures, cl)
				case "ensures-local":
					cl.Local = true
					cur.Ensures = append(cur.Ensures, cl)
				case "checks":
					cur.Checks = append(cur.Checks, cl)
				default:
					cur.Assumed = append(cur.Assumed, cl)
					db.Scan = append(db.Scan, fmt.Sprintf("assumed postcondition %s::%s [%s]: %s", cur.Pkg, cur.Name, label, rest))
				}
			case "modifies":
				for _, m := range strings.Split(rest, ",") {
					m = strings.TrimSpace(m)
					if m == "" || m == "nothing" {
						continue
					}
					if m == "*" {
						cur.ModAll = true
						continue
					}
					cur.Modifies = append(cur.Modifies, m)
				}
			case "loop":
				w2, r2 := splitWord(rest)
				n, err := strconv.Atoi(w2)
				if err != nil {
					return fail(l.n, "loop <ordinal>")
				}
				w3, r3 := splitWord(r2)
				lab := ""
				if i := strings.Index(w3, "["); i >= 0 && strings.HasSuffix(w3, "]") {
					lab = w3[i+1 : len(w3)-1]
					w3 = w3[:i]
				}
				ls := cur.Loops[n]
				if ls == nil {
					ls = &LoopSpec{}
					cur.Loops[n] = ls
				}
				e, err := parseSpecExpr(r3)
				if err != nil {
					return fail(l.n, "%v", err)
				}
				switch w3 {
				case "invariant":
					ls.Inv = append(ls.Inv, Clause{Label: lab, E: e, Src: r3})
				case "decreases":
					ls.Dec = e
				case "assume":
					// assumed at the loop head without proof; reported as an unchecked assumption
					ls.Assume = append(ls.Assume, Clause{Label: lab, E: e, Src: r3})
					db.Scan = append(db.Scan, fmt.Sprintf("loop assumption %s loop %d [%s] (%s:%d): %s", cur.Name, n, lab, filepath.Base(path), l.n, strings.TrimSpace(r3)))
				default:
					return fail(l.n, "loop n invariant|decreases|assume")
				}
			case "ghost-exit":
				i := strings.Index(rest, ":=")
				if i < 0 {
					return fail(l.n, "ghost-exit lhs := rhs")
				}
				lhs, err := parseSpecExpr(rest[:i])
				if err != nil {
					return fail(l.n, "%v", err)
				}
				rhs, err := parseSpecExpr(rest[i+2:])
				if err != nil {
					return fail(l.n, "%v", err)
				}
				cur.GhostEx = append(cur.GhostEx, GhostAssign{lhs, rhs, rest})
			case "pure":
				cur.Pure = true
			case "fresh":
				cur.Fresh = true
			case "opaque":
				cur.Opaque = true
			case "replay":
				cur.Replay = strings.TrimSpace(rest)
			case "callback-ensures":
				col := strings.Index(rest, ":")
				if col < 0 {
					return fail(l.n, "callback-ensures <param>: <expr>")
				}
				e, err := parseSpecExpr(rest[col+1:])
				if err != nil {
					return fail(l.n, "%v", err)
				}
				if cur.Callback == nil {
					cur.Callback = map[string][]Clause{}
				}
				pn := strings.TrimSpace(rest[:col])
				cur.Callback[pn] = append(cur.Callback[pn], Clause{Label: label, E: e, Src: rest})
				db.Scan = append(db.Scan, fmt.Sprintf("assumed about callback %s of %s::%s: %s", pn, cur.Pkg, cur.Name, strings.TrimSpace(rest[col+1:])))
			case "uses":
				for _, u := range strings.Split(rest, ",") {
					if u = strings.TrimSpace(u); u != "" {
						cur.Uses = append(cur.Uses, u)
					}
				}
			case "targets":
				for _, t := range strings.Split(rest, ",") {
					cur.Targets = append(cur.Targets, strings.TrimSpace(t))
				}
			case "replay-bound":
				e, err := parseSpecExpr(rest)
				if err != nil {
					return fail(l.n, "%v", err)
				}
				cur.ReplayBd = append(cur.ReplayBd, e)
			case "replay-input":
				i := strings.Index(rest, "=")
				if i < 0 {
					return fail(l.n, "replay-input name = expr")
				}
				e, err := parseSpecExpr(rest[i+1:])
				if err != nil {
					return fail(l.n, "%v", err)
				}
				cur.ReplayIn = append(cur.ReplayIn, ReplayInput{strings.TrimSpace(rest[:i]), e})
			case "dispatch":
				col := strings.Index(rest, ":")
				if col < 0 {
					return fail(l.n, "dispatch Iface : T1 | T2")
				}
				if cur.Dispatch == nil {
					cur.Dispatch = map[string][]string{}
				}
				var alts []string
				for _, a := range strings.Split(rest[col+1:], "|") {
					alts = append(alts, strings.TrimSpace(a))
				}
				cur.Dispatch[strings.TrimSpace(rest[:col])] = alts
			case "calls-after":
				// structural: `calls-after A B` — every call of B in the body is dominated by a call of A
				// (names match static callees by suffix and interface methods by method name)
				if f := strings.Fields(rest); len(f) == 2 {
					cur.CallsAfter = append(cur.CallsAfter, [2]string{f[0], f[1]})
				}
			case "calls-in-entry":
				// structural: the entry block of the body contains a static call of the named function
				if f := strings.TrimSpace(rest); f != "" {
					cur.CallsInEntry = append(cur.CallsInEntry, f)
				}
			case "always-sends":
				cur.AlwaysSends = true
			case "always-calls":
				// structural: `always-calls F` — no path returns without having called F (static callee by suffix,
				// interface method by name)
				if f := strings.TrimSpace(rest); f != "" {
					cur.AlwaysCalls = append(cur.AlwaysCalls, f)
				}
			case "structural-only":
				cur.StructuralOnly = strings.TrimSpace(rest)
				if cur.StructuralOnly == "" {
					cur.StructuralOnly = "no reason given"
				}
			case "closure-calls-first":
				// `closure-calls-first <N> <callee>`: the N-th function literal of the body starts (after its defers) with a
				// call of callee — structural, like `defers`: nothing that can fail or return runs before it
				f := strings.Fields(rest)
				if len(f) == 2 {
					cur.ClosureFirst = append(cur.ClosureFirst, [2]string{f[0], f[1]})
				}
			case "bounded":
				// `bounded <harness> <reason>`: the function is outside the contracts' reach; a bounded, exhaustive
				// small-scope run of the real code (/verif/bounded/<harness>_test.go) stands in — never counted as proved
				f := strings.Fields(rest)
				if len(f) > 0 {
					cur.Bounded = f[0]
					cur.BoundedWhy = strings.TrimSpace(strings.TrimPrefix(rest, f[0]))
					cur.ModAll = true
				}
			case "panic-assumed-unreachable":
				cur.PanicAssumed = true
			case "recovers":
				// structural obligation: recover() only stops a panic when called directly by the deferred function
				cur.Recovers = true
			case "defers":
				for _, d := range strings.Split(rest, ",") {
					if d = strings.TrimSpace(d); d != "" {
						cur.Defers = append(cur.Defers, d)
					}
				}
			case "props":
				cur.Props = strings.Fields(strings.ReplaceAll(rest, ",", " "))
			case "trusted":
				cur.Trusted = strings.TrimSpace(rest)
				db.Scan = append(db.Scan, fmt.Sprintf("trusted %s::%s: %s", cur.Pkg, cur.Name, cur.Trusted))
			default:
				return fail(l.n, "unknown clause `%s`", word)
			}
		}
	}
	return nil
}

func splitWord(s string) (string, string) {
	s = strings.TrimSpace(s)
	i := strings.IndexFunc(s, unicode.IsSpace)
	if i < 0 {
		return s, ""
	}
	return s[:i], strings.TrimSpace(s[i:])
}

func matchParen(s string, i int) int {
	d := 0
	for j := i; j < len(s); j++ {
		switch s[j] {
		case '(':
			d++
		case ')':
			d--
			if d == 0 {
				return j
			}
		}
	}
	return -1
}

func splitTop(s string, sep byte) []string {
	var out []string
	d := 0
	last := 0
	for i := 0; i < len(s); i++ {
		switch s[i] {
		case '(', '[', '{':
			d++
		case ')', ']', '}':
			d--
		default:
			if s[i] == sep && d == 0 {
				out = append(out, s[last:i])
				last = i + 1
			}
		}
	}
	out = append(out, s[last:])
	return out
}

// ---- expression parser --------------------------------------------------

type tok struct {
	k string // id num str op eof
	v string
}

type sparser struct {
	toks []tok
	p    int
	src  string
}

func lexSpec(s string) ([]tok, error) {
	var ts []tok
	i := 0
	for i < len(s) {
		c := s[i]
		switch {
		case c == ' ' || c == '\t':
			i++
		case unicode.IsLetter(rune(c)) || c == '_' || c == '$':
			j := i + 1
			for j < len(s) && (unicode.IsLetter(rune(s[j])) || unicode.IsDigit(rune(s[j])) || s[j] == '_' || s[j] == '$') {
				j++
			}
			ts = append(ts, tok{"id", s[i:j]})
			i = j
		case unicode.IsDigit(rune(c)):
			j := i + 1
			for j < len(s) && (unicode.IsDigit(rune(s[j])) || s[j] == 'x' || (s[j] >= 'a' && s[j] <= 'f') || (s[j] >= 'A' && s[j] <= 'F')) {
				j++
			}
			ts = append(ts, tok{"num", s[i:j]})
			i = j
		case c == '"':
			j := i + 1
			for j < len(s) && s[j] != '"' {
				if s[j] == '\\' {
					j++
				}
				j++
			}
			if j >= len(s) {
				return nil, fmt.Errorf("unterminated string in %q", s)
			}
			u, err := strconv.Unquote(s[i : j+1])
			if err != nil {
				return nil, err
			}
			ts = append(ts, tok{"str", u})
			i = j + 1
		default:
			ops := []string{"<==>", "==>", "::", "{", "}", "==", "!=", "<=", ">=", "&&", "||", ".(", "<", ">", "+", "-", "*", "/", "%", "!", "(", ")", "[", "]", ",", ".", ":", "?"}
			found := false
			for _, op := range ops {
				if strings.HasPrefix(s[i:], op) {
					ts = append(ts, tok{"op", op})
					i += len(op)
					found = true
					break
				}
			}
			if !found {
				return nil, fmt.Errorf("bad character %q in %q", c, s)
			}
		}
	}
	ts = append(ts, tok{"eof", ""})
	return ts, nil
}

func parseSpecExpr(s string) (*SExpr, error) {
	ts, err := lexSpec(s)
	if err != nil {
		return nil, err
	}
	p := &sparser{toks: ts, src: s}
	e, err := p.expr()
	if err != nil {
		return nil, fmt.Errorf("%v in %q", err, s)
	}
	if p.peek().k != "eof" {
		return nil, fmt.Errorf("trailing %q in %q", p.peek().v, s)
	}
	e.Src = strings.TrimSpace(s)
	return e, nil
}

func (p *sparser) peek() tok { return p.toks[p.p] }
func (p *sparser) next() tok { t := p.toks[p.p]; p.p++; return t }
func (p *sparser) isOp(v string) bool {
	t := p.peek()
	return t.k == "op" && t.v == v
}
func (p *sparser) isID(v string) bool {
	t := p.peek()
	return t.k == "id" && t.v == v
}
func (p *sparser) expect(v string) error {
	if !p.isOp(v) {
		return fmt.Errorf("expected %q, got %q", v, p.peek().v)
	}
	p.p++
	return nil
}

func (p *sparser) expr() (*SExpr, error) {
	if p.isID("forall") || p.isID("exists") {
		q := p.next().v
		var vars []QVar
		for {
			n := p.next()
			if n.k != "id" {
				return nil, fmt.Errorf("quantifier variable expected")
			}
			if p.isID("in") {
				p.p++
				se, err := p.or()
				if err != nil {
					return nil, err
				}
				vars = append(vars, QVar{Name: n.v, In: se})
				if p.isOp(",") {
					p.p++
					continue
				}
				break
			}
			// type: tokens until , or ::
			var ty strings.Builder
			for !p.isOp(",") && !p.isOp("::") && p.peek().k != "eof" {
				ty.WriteString(p.next().v)
			}
			vars = append(vars, QVar{Name: n.v, Type: ty.String()})
			if p.isOp(",") {
				p.p++
				continue
			}
			break
		}
		if err := p.expect("::"); err != nil {
			return nil, err
		}
		// optional explicit triggers: forall x T :: {t1, t2} body
		// several groups `{..} {..}` are alternative multi-patterns (separated by a `trigsep` marker)
		var trig []*SExpr
		for p.isOp("{") {
			p.p++
			if len(trig) > 0 {
				trig = append(trig, &SExpr{Op: "trigsep"})
			}
			for !p.isOp("}") {
				t, err := p.or()
				if err != nil {
					return nil, err
				}
				trig = append(trig, t)
				if p.isOp(",") {
					p.p++
				}
			}
			p.p++
		}
		body, err := p.expr()
		if err != nil {
			return nil, err
		}
		return &SExpr{Op: q, Vars: vars, Args: append([]*SExpr{body}, trig...)}, nil
	}
	return p.imp()
}

func (p *sparser) imp() (*SExpr, error) {
	l, err := p.or()
	if err != nil {
		return nil, err
	}
	if p.isOp("==>") || p.isOp("<==>") {
		op := p.next().v
		var r *SExpr
		if p.isID("forall") || p.isID("exists") {
			r, err = p.expr()
		} else {
			r, err = p.imp()
		}
		if err != nil {
			return nil, err
		}
		return &SExpr{Op: "bin", Name: op, Args: []*SExpr{l, r}}, nil
	}
	if p.isOp("?") {
		p.p++
		a, err := p.expr()
		if err != nil {
			return nil, err
		}
		if err := p.expect(":"); err != nil {
			return nil, err
		}
		b, err := p.expr()
		if err != nil {
			return nil, err
		}
		return &SExpr{Op: "ite", Args: []*SExpr{l, a, b}}, nil
	}
	return l, nil
}

func (p *sparser) binLevel(sub func() (*SExpr, error), ops ...string) (*SExpr, error) {
	l, err := sub()
	if err != nil {
		return nil, err
	}
	for {
		matched := false
		for _, op := range ops {
			if p.isOp(op) {
				p.p++
				var r *SExpr
				if (op == "&&" || op == "||") && (p.isID("forall") || p.isID("exists")) {
					r, err = p.expr()
				} else {
					r, err = sub()
				}
				if err != nil {
					return nil, err
				}
				l = &SExpr{Op: "bin", Name: op, Args: []*SExpr{l, r}}
				matched = true
				break
			}
		}
		if !matched {
			return l, nil
		}
	}
}

func (p *sparser) or() (*SExpr, error)  { return p.binLevel(p.and, "||") }
func (p *sparser) and() (*SExpr, error) { return p.binLevel(p.cmp, "&&") }
func (p *sparser) cmp() (*SExpr, error) {
	l, err := p.add()
	if err != nil {
		return nil, err
	}
	for _, op := range []string{"==", "!=", "<=", ">=", "<", ">"} {
		if p.isOp(op) {
			p.p++
			r, err := p.add()
			if err != nil {
				return nil, err
			}
			return &SExpr{Op: "bin", Name: op, Args: []*SExpr{l, r}}, nil
		}
	}
	if p.isID("in") {
		p.p++
		r, err := p.add()
		if err != nil {
			return nil, err
		}
		return &SExpr{Op: "bin", Name: "in", Args: []*SExpr{l, r}}, nil
	}
	return l, nil
}
func (p *sparser) add() (*SExpr, error) { return p.binLevel(p.mul, "+", "-") }
func (p *sparser) mul() (*SExpr, error) { return p.binLevel(p.unary, "*", "/", "%") }

func (p *sparser) unary() (*SExpr, error) {
	if p.isOp("!") {
		p.p++
		e, err := p.unary()
		if err != nil {
			return nil, err
		}
		return &SExpr{Op: "not", Args: []*SExpr{e}}, nil
	}
	if p.isOp("-") {
		p.p++
		e, err := p.unary()
		if err != nil {
			return nil, err
		}
		return &SExpr{Op: "neg", Args: []*SExpr{e}}, nil
	}
	return p.postfix()
}

func (p *sparser) postfix() (*SExpr, error) {
	e, err := p.primary()
	if err != nil {
		return nil, err
	}
	for {
		switch {
		case p.isOp(".("):
			p.p++
			var ty strings.Builder
			d := 0
			isCast := false
			if p.isID("as") && !(p.toks[p.p+1].k == "op" && p.toks[p.p+1].v == ")") {
				isCast = true
				p.p++
			}
			for !(p.isOp(")") && d == 0) && p.peek().k != "eof" {
				t := p.next()
				if t.v == "(" {
					d++
				} else if t.v == ")" {
					d--
				}
				ty.WriteString(t.v)
			}
			if err := p.expect(")"); err != nil {
				return nil, err
			}
			if tn := ty.String(); isCast {
				// x.(as *T): the value seen as a *T (a cast, no test)
				e = &SExpr{Op: "cast", Name: strings.TrimSpace(tn), Args: []*SExpr{e}}
			} else {
				e = &SExpr{Op: "typeis", Name: tn, Args: []*SExpr{e}}
			}
		case p.isOp("."):
			p.p++
			n := p.next()
			if n.k != "id" {
				return nil, fmt.Errorf("field name expected after '.'")
			}
			e = &SExpr{Op: "sel", Name: n.v, Args: []*SExpr{e}}
		case p.isOp("["):
			p.p++
			i, err := p.expr()
			if err != nil {
				return nil, err
			}
			if err := p.expect("]"); err != nil {
				return nil, err
			}
			e = &SExpr{Op: "idx", Args: []*SExpr{e, i}}
		case p.isOp("("):
			p.p++
			args := []*SExpr{e}
			for !p.isOp(")") {
				a, err := p.expr()
				if err != nil {
					return nil, err
				}
				args = append(args, a)
				if p.isOp(",") {
					p.p++
				} else {
					break
				}
			}
			if err := p.expect(")"); err != nil {
				return nil, err
			}
			if e.Op == "id" && e.Name == "old" && len(args) == 2 {
				e = &SExpr{Op: "old", Args: []*SExpr{args[1]}}
			} else {
				e = &SExpr{Op: "call", Args: args}
			}
		default:
			return e, nil
		}
	}
}

func (p *sparser) primary() (*SExpr, error) {
	t := p.next()
	switch t.k {
	case "id":
		switch t.v {
		case "nil", "true", "false":
			return &SExpr{Op: t.v, Name: t.v}, nil
		}
		return &SExpr{Op: "id", Name: t.v}, nil
	case "num":
		return &SExpr{Op: "num", Name: t.v}, nil
	case "str":
		return &SExpr{Op: "str", Name: t.v}, nil
	case "op":
		if t.v == "(" {
			e, err := p.expr()
			if err != nil {
				return nil, err
			}
			if err := p.expect(")"); err != nil {
				return nil, err
			}
			return e, nil
		}
	}
	return nil, fmt.Errorf("unexpected %q", t.v)
}

// expandModifies replaces `@pkg.Func` entries of modifies clauses by that contract's modifies
// list (type names qualified by the source package name).
func (db *SpecDB) expandModifies() error {
	for round := 0; round < 4; round++ {
		changed := false
		for _, c := range db.Contracts {
			var out []string
			for _, m := range c.Modifies {
				if !strings.HasPrefix(m, "@") {
					out = append(out, m)
					continue
				}
				ref := strings.TrimPrefix(m, "@")
				atAll := ""
				if i := strings.Index(ref, " @ "); i >= 0 {
					atAll = strings.TrimSpace(ref[i+3:])
					ref = strings.TrimSpace(ref[:i])
				}
				var src *Contract
				for _, d := range db.Contracts {
					pn := d.Pkg[strings.LastIndex(d.Pkg, "/")+1:]
					if pn+"."+d.Name == ref || (d.Pkg == c.Pkg && d.Name == ref) {
						src = d
					}
				}
				if src == nil {
					return fmt.Errorf("%s:%d: modifies %s: unknown contract", c.File, c.Line, m)
				}
				changed = true
				if src.ModAll {
					c.ModAll = true
				}
				pn := src.Pkg[strings.LastIndex(src.Pkg, "/")+1:]
				for _, sm := range src.Modifies {
					if strings.HasPrefix(sm, "@") {
						// nested reference: drop the source's object restriction (it names the source's parameters)
						if i := strings.Index(sm, " @ "); i >= 0 {
							sm = sm[:i]
						}
						// keep it resolvable from here: qualify a same-package reference
						ref2 := strings.TrimPrefix(sm, "@")
						if !strings.Contains(strings.SplitN(ref2, "(", 2)[0], ".") || strings.HasPrefix(ref2, "(") {
							sm = "@" + pn + "." + ref2
						}
						out = append(out, sm)
						continue
					}
					if sm == "alloc" || strings.HasPrefix(sm, "map[") || strings.HasPrefix(sm, "G:") || strings.HasPrefix(sm, "*") {
						if sel, _ := splitModAt(sm); sel != sm {
							sm = sel
						}
						out = append(out, sm)
						continue
					}
					// Type.field -> pkg.Type.field unless already qualified
					// object-granular entries of the source name ITS parameters: imported coarsely
					sel, _ := splitModAt(sm)
					sm = sel
					if strings.Count(sel, ".") == 1 && src.Pkg != c.Pkg {
						sm = pn + "." + sel
					}
					if atAll != "" && !strings.Contains(sm, " @ ") {
						sm += " @ " + atAll
					}
					out = append(out, sm)
				}
			}
			c.Modifies = out
		}
		if !changed {
			break
		}
	}
	return nil
}
