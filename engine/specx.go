package main

// Evaluation of specification expressions into SMT terms, loop protocol,
// postcondition checks, ghost fields and type invariants.

import (
	"fmt"
	"go/ast"
	"go/constant"
	"go/token"
	"go/types"
	"math/big"
	"sort"
	"strings"

	"golang.org/x/tools/go/ssa"
)

type SEnv struct {
	x      *VC
	vars   map[string]*Val
	cur    *State
	old    *State
	result []*Val
	sig    *types.Signature
	fn     *ssa.Function
	pkg    *types.Package
	bound  map[string]*Val
	depth  int
}

func (e *SEnv) with(cur *State) *SEnv {
	n := *e
	n.cur = cur
	return &n
}

func (x *VC) resolveType(s string, pkg *types.Package) types.Type {
	s = strings.TrimSpace(s)
	switch {
	case s == "ref":
		return types.Typ[types.UnsafePointer]
	case strings.HasPrefix(s, "*"):
		return types.NewPointer(x.resolveType(s[1:], pkg))
	case strings.HasPrefix(s, "[]"):
		return types.NewSlice(x.resolveType(s[2:], pkg))
	case strings.HasPrefix(s, "map["):
		d := 0
		for i := 3; i < len(s); i++ {
			if s[i] == '[' {
				d++
			} else if s[i] == ']' {
				d--
				if d == 0 {
					return types.NewMap(x.resolveType(s[4:i], pkg), x.resolveType(s[i+1:], pkg))
				}
			}
		}
	case s == "interface{}":
		return types.NewInterfaceType(nil, nil)
	case strings.HasPrefix(s, "struct{") && strings.HasSuffix(s, "}"):
		// anonymous struct of exported fields, e.g. struct{Map map[string]timedType; Size int}
		var fs []*types.Var
		for _, f := range splitTop(s[len("struct{"):len(s)-1], ';') {
			f = strings.TrimSpace(f)
			if f == "" {
				continue
			}
			sp := strings.IndexAny(f, " \t")
			if sp < 0 {
				x.refuse("struct field %q in specification type", f)
			}
			fs = append(fs, types.NewField(token.NoPos, pkg, f[:sp], x.resolveType(f[sp+1:], pkg), false))
		}
		return types.NewStruct(fs, nil)
	}
	if o := types.Universe.Lookup(s); o != nil {
		if tn, ok := o.(*types.TypeName); ok {
			return tn.Type()
		}
	}
	if i := strings.Index(s, "."); i >= 0 {
		pn, tn := s[:i], s[i+1:]
		for _, sp := range x.eng.prog.AllPackages() {
			if sp.Pkg.Name() == pn || sp.Pkg.Path() == pn {
				if o := sp.Pkg.Scope().Lookup(tn); o != nil {
					if t, ok := o.(*types.TypeName); ok {
						// prefer repository packages and direct imports
						if pkg == nil || sp.Pkg == pkg || imports(pkg, sp.Pkg) || strings.HasPrefix(sp.Pkg.Path(), repoPrefix) {
							return t.Type()
						}
					}
				}
			}
		}
		x.refuse("unknown type %s", s)
	}
	if pkg != nil {
		if o := pkg.Scope().Lookup(s); o != nil {
			if t, ok := o.(*types.TypeName); ok {
				return t.Type()
			}
		}
	}
	// unqualified name from another package's contract (expanded footprints): unique repo-wide?
	var found types.Type
	n := 0
	for _, sp := range x.eng.prog.AllPackages() {
		if !strings.HasPrefix(sp.Pkg.Path(), repoPrefix) {
			continue
		}
		if o := sp.Pkg.Scope().Lookup(s); o != nil {
			if t, ok := o.(*types.TypeName); ok {
				found = t.Type()
				n++
			}
		}
	}
	if n == 1 {
		return found
	}
	x.refuse("unknown type %q in specification", s)
	return nil
}

func imports(p, q *types.Package) bool {
	for _, i := range p.Imports() {
		if i == q {
			return true
		}
	}
	return false
}

func (x *VC) specFail(e *SExpr, f string, a ...interface{}) {
	x.refuse("specification `%s`: %s", e.String(), fmt.Sprintf(f, a...))
}

// evalSpec evaluates a specification expression. All terms are built without
// introducing names, so they can be used under quantifiers.
func (x *VC) evalSpec(e *SExpr, env *SEnv) *Val {
	x.noName++
	x.specMode++
	defer func() { x.noName--; x.specMode-- }()
	return x.ev(e, env)
}

func (x *VC) litVal(n *big.Int) *Val {
	v := &Val{K: KScalar, Lit: n, GT: types.Typ[types.UntypedInt]}
	v.T = x.intLit(n, tInt)
	v.S = x.idxSort()
	return v
}

// coerce renders an untyped literal in the integer type of the other operand.
func (x *VC) coerce(a, b *Val) (*Val, *Val) {
	if a.Lit != nil && b.Lit == nil && b.K == KScalar {
		if _, ok := isIntType(b.GT); ok {
			a = &Val{K: KScalar, T: x.intLit(a.Lit, b.GT), S: b.S, GT: b.GT}
		} else if b.S == "Real" {
			a = &Val{K: KScalar, T: a.Lit.String() + ".0", S: "Real", GT: b.GT}
		} else if b.S == "Int" {
			a = &Val{K: KScalar, T: x.mathLit(a.Lit), S: "Int", GT: b.GT}
		}
	} else if b.Lit != nil && a.Lit == nil {
		b, a = x.coerce(b, a)
	}
	return a, b
}

func (x *VC) mathLit(n *big.Int) string {
	if n.Sign() < 0 {
		return "(- " + new(big.Int).Neg(n).String() + ")"
	}
	return n.String()
}

func (x *VC) ev(e *SExpr, env *SEnv) *Val {
	switch e.Op {
	case "num":
		n, ok := new(big.Int).SetString(e.Name, 0)
		if !ok {
			x.specFail(e, "bad number")
		}
		return x.litVal(n)
	case "str":
		return x.scalar(smtStringLit(e.Name), types.Typ[types.String])
	case "nil":
		return &Val{K: KScalar, T: "0", S: "Int", GT: types.Typ[types.UntypedNil]}
	case "true", "false":
		return bval(e.Op)
	case "id":
		return x.evID(e, env)
	case "old":
		return x.ev(e.Args[0], env.with(env.old))
	case "not":
		return bval(sNot(x.ev(e.Args[0], env).T))
	case "neg":
		v := x.ev(e.Args[0], env)
		if v.Lit != nil {
			return x.litVal(new(big.Int).Neg(v.Lit))
		}
		if x.mode == "bv" {
			return &Val{K: KScalar, T: "(bvneg " + v.T + ")", S: v.S, GT: v.GT}
		}
		return &Val{K: KScalar, T: "(- " + v.T + ")", S: v.S, GT: v.GT}
	case "ite":
		c := x.ev(e.Args[0], env)
		a := x.ev(e.Args[1], env)
		b := x.ev(e.Args[2], env)
		a, b = x.coerce(a, b)
		return &Val{K: KScalar, T: sIte(c.T, a.T, b.T), S: a.S, GT: a.GT}
	case "bin":
		return x.evBin(e, env)
	case "sel":
		return x.evSel(e, env)
	case "idx":
		return x.evIdx(e, env)
	case "call":
		return x.evCall(e, env)
	case "cast":
		v := x.ev(e.Args[0], env)
		t := x.resolveType(e.Name, env.pkg)
		if _, isSl := t.Underlying().(*types.Slice); isSl && v.K == KScalar {
			if ub := x.unboxSlice(v.T, t); ub != nil {
				return ub
			}
		}
		if _, isB := t.Underlying().(*types.Basic); isB && v.K == KScalar && v.S == "Int" {
			// a boxed scalar (string, integer, bool) seen as its value
			if _, fromIface := v.GT.Underlying().(*types.Interface); fromIface {
				if bs := x.sortOf(t); bs != "" {
					_, ub := x.boxFns(t)
					return &Val{K: KScalar, T: "(" + ub + " " + v.T + ")", S: bs, GT: t}
				}
			}
		}
		return &Val{K: KScalar, T: v.T, S: v.S, GT: t}
	case "typeis":
		v := x.ev(e.Args[0], env)
		t := x.resolveType(e.Name, env.pkg)
		if _, isI := t.Underlying().(*types.Interface); isI {
			tags := x.eng.implTags(x, t)
			var alts []string
			for _, tg := range tags {
				alts = append(alts, sEq("(dtype "+v.T+")", tg))
			}
			return bval(sAnd(sNot(sEq(v.T, "0")), sOr(alts...)))
		}
		return bval(sAnd(sNot(sEq(v.T, "0")), sEq("(dtype "+v.T+")", x.tag(t))))
	case "forall", "exists":
		ne := *env
		ne.bound = map[string]*Val{}
		for k, v := range env.bound {
			ne.bound[k] = v
		}
		var decls []string
		var ranges []string
		for _, qv := range e.Vars {
			name := "qv$" + qv.Name
			var v *Val
			if qv.In != nil {
				// element quantification over a slice: the bound variable is the ABSOLUTE index into the
				// backing array, so that (select arr a) is a trigger matching every element access
				sl := x.ev(qv.In, env)
				if sl.K != KSlice {
					x.specFail(e, "`%s in ...` needs a slice", qv.Name)
				}
				var et types.Type
				if st, ok := sl.GT.Underlying().(*types.Slice); ok {
					et = st.Elem()
				}
				decls = append(decls, "("+name+" "+x.idxSort()+")")
				ranges = append(ranges, x.cmpS("<=", sl.Off, name), x.cmpS("<", name, x.addS(sl.Off, sl.Len)))
				ev := &Val{K: KScalar, T: sSel(sl.Arr, name), S: sl.ES, GT: et}
				if et != nil && x.dtSort(et) != "" && sl.ES == x.dtSort(et) {
					ev = x.unpackStruct(sSel(sl.Arr, name), et, env.cur)
				}
				ne.bound[qv.Name] = ev
				continue
			}
			switch qv.Type {
			case "int":
				v = &Val{K: KScalar, T: name, S: x.idxSort(), GT: tInt}
			case "mathint":
				v = &Val{K: KScalar, T: name, S: "Int", GT: types.Typ[types.UntypedInt]}
			case "real":
				v = &Val{K: KScalar, T: name, S: "Real", GT: types.Typ[types.UntypedFloat]}
			default:
				t := x.resolveType(qv.Type, env.pkg)
				s := x.sortOf(t)
				if s == "" {
					x.specFail(e, "quantified variable of composite type %s", qv.Type)
				}
				v = &Val{K: KScalar, T: name, S: s, GT: t}
				// a variable of a machine integer type ranges over that type's values
				if rg := x.typeRange(name, t); rg != "true" {
					ranges = append(ranges, rg)
				}
			}
			ne.bound[qv.Name] = v
			decls = append(decls, "("+name+" "+v.S+")")
		}
		body := x.ev(e.Args[0], &ne)
		bt := body.T
		if len(ranges) > 0 {
			if e.Op == "forall" {
				bt = sImp(sAnd(ranges...), bt)
			} else {
				bt = sAnd(append(ranges, bt)...)
			}
		}
		if len(e.Args) > 1 {
			var groups []string
			var ts []string
			for _, t := range e.Args[1:] {
				if t.Op == "trigsep" {
					groups = append(groups, ":pattern ("+strings.Join(ts, " ")+")")
					ts = nil
					continue
				}
				ts = append(ts, patternTerm(x.ev(t, &ne).T))
			}
			groups = append(groups, ":pattern ("+strings.Join(ts, " ")+")")
			bt = "(! " + bt + " " + strings.Join(groups, " ") + ")"
		}
		return bval("(" + e.Op + " (" + strings.Join(decls, " ") + ") " + bt + ")")
	}
	x.specFail(e, "unsupported expression form %s", e.Op)
	return nil
}

func (x *VC) evID(e *SExpr, env *SEnv) *Val {
	n := e.Name
	if v, ok := env.bound[n]; ok {
		return v
	}
	if v, ok := env.vars[n]; ok {
		return v
	}
	if p, ok := x.fvPtr[n]; ok {
		// a captured variable of the function literal under contract: its content in the state of the environment
		return x.loadAddr(&Addr{Kind: ADeref, Base: p.T, ElemT: p.GT.(*types.Pointer).Elem()}, env.cur)
	}
	if n == "result" {
		if len(env.result) == 0 {
			x.specFail(e, "no result in this context")
		}
		return env.result[0]
	}
	if strings.HasPrefix(n, "result") {
		var i int
		if _, err := fmt.Sscanf(n, "result%d", &i); err == nil && i < len(env.result) {
			return env.result[i]
		}
	}
	if env.sig != nil {
		for i := 0; i < env.sig.Results().Len(); i++ {
			if env.sig.Results().At(i).Name() == n && i < len(env.result) {
				return env.result[i]
			}
		}
	}
	// package-level constants
	if env.pkg != nil {
		if o := env.pkg.Scope().Lookup(n); o != nil {
			if c, ok := o.(*types.Const); ok {
				return x.constObj(c)
			}
		}
	}
	x.specFail(e, "unknown identifier %s", n)
	return nil
}

func (x *VC) constObj(c *types.Const) *Val {
	t := c.Type()
	switch c.Val().Kind() {
	case constant.Int:
		bi, _ := new(big.Int).SetString(c.Val().ExactString(), 10)
		if b, ok := t.Underlying().(*types.Basic); ok && b.Info()&types.IsUntyped != 0 {
			return x.litVal(bi)
		}
		return x.scalar(x.intLit(bi, t), t)
	case constant.String:
		return x.scalar(smtStringLit(constant.StringVal(c.Val())), t)
	case constant.Bool:
		if constant.BoolVal(c.Val()) {
			return bval("true")
		}
		return bval("false")
	}
	x.refuse("constant %s of unsupported kind", c.Name())
	return nil
}

func (x *VC) evBin(e *SExpr, env *SEnv) *Val {
	op := e.Name
	switch op {
	case "&&", "||", "==>", "<==>":
		a := x.ev(e.Args[0], env)
		b := x.ev(e.Args[1], env)
		if a.S != "Bool" || b.S != "Bool" {
			x.specFail(e, "boolean operator on non-boolean operands")
		}
		switch op {
		case "&&":
			return bval(sAnd(a.T, b.T))
		case "||":
			return bval(sOr(a.T, b.T))
		case "==>":
			return bval(sImp(a.T, b.T))
		default:
			return bval(sEq(a.T, b.T))
		}
	case "in":
		k := x.ev(e.Args[0], env)
		m := x.ev(e.Args[1], env)
		if mt, ok := m.GT.Underlying().(*types.Map); ok {
			return bval(x.mapHas(env.cur, mt, m.T, k.T))
		}
		if strings.HasPrefix(m.S, "(Array ") { // ghost set
			return bval(sSel(m.T, k.T))
		}
		x.specFail(e, "`in` needs a map or a ghost set")
	}
	a := x.ev(e.Args[0], env)
	b := x.ev(e.Args[1], env)
	a, b = x.coerce(a, b)
	if a.Lit != nil && b.Lit != nil {
		// constant folding on literals
		r := new(big.Int)
		switch op {
		case "+":
			return x.litVal(r.Add(a.Lit, b.Lit))
		case "-":
			return x.litVal(r.Sub(a.Lit, b.Lit))
		case "*":
			return x.litVal(r.Mul(a.Lit, b.Lit))
		}
	}
	tok := map[string]token.Token{"==": token.EQL, "!=": token.NEQ, "<": token.LSS, "<=": token.LEQ, ">": token.GTR, ">=": token.GEQ,
		"+": token.ADD, "-": token.SUB, "*": token.MUL, "/": token.QUO, "%": token.REM}[op]
	if a.K == KScalar && b.K == KScalar && (a.S == "Int" || a.S == "Real") && !x.isMachineInt(a) && !x.isMachineInt(b) && a.S == b.S {
		// mathematical integers / reals / references
		switch op {
		case "==":
			return bval(sEq(a.T, b.T))
		case "!=":
			return bval(sNot(sEq(a.T, b.T)))
		case "<", "<=", ">", ">=":
			return bval("(" + op + " " + a.T + " " + b.T + ")")
		case "+", "-", "*":
			return &Val{K: KScalar, T: "(" + op + " " + a.T + " " + b.T + ")", S: a.S, GT: a.GT}
		case "/":
			if a.S == "Real" {
				return &Val{K: KScalar, T: "(/ " + a.T + " " + b.T + ")", S: a.S, GT: a.GT}
			}
			return &Val{K: KScalar, T: "(div " + a.T + " " + b.T + ")", S: a.S, GT: a.GT}
		case "%":
			return &Val{K: KScalar, T: "(mod " + a.T + " " + b.T + ")", S: a.S, GT: a.GT}
		}
	}
	if a.K == KScalar && b.K == KScalar && a.S != b.S {
		x.specFail(e, "operands of different sorts: %s vs %s", a.S, b.S)
	}
	opT := a.GT
	if a.GT == types.Typ[types.UntypedNil] {
		opT = b.GT
	}
	resT := opT
	switch op {
	case "==", "!=", "<", "<=", ">", ">=":
		resT = types.Typ[types.Bool]
	}
	// specification arithmetic never generates overflow obligations: in math mode it is mathematical
	saved := x.noOvf
	x.noOvf = true
	x.specArith++
	r := x.binop(tok, a, b, opT, resT, "true", "")
	x.specArith--
	x.noOvf = saved
	return r
}

func (x *VC) isMachineInt(v *Val) bool {
	if v.GT == nil {
		return false
	}
	b, ok := v.GT.Underlying().(*types.Basic)
	if !ok {
		return false
	}
	return b.Info()&types.IsInteger != 0 && b.Info()&types.IsUntyped == 0 && x.mode == "bv"
}

func (x *VC) ghostSort(s string) string {
	s = strings.TrimSpace(s)
	switch s {
	case "int":
		return x.idxSort()
	case "mathint":
		return "Int"
	case "ref":
		return "Int"
	case "bool":
		return "Bool"
	case "real":
		return "Real"
	case "string":
		return "String"
	}
	if strings.HasPrefix(s, "array<") && strings.HasSuffix(s, ">") {
		ps := splitTop(s[6:len(s)-1], ',')
		if len(ps) == 2 {
			return fmt.Sprintf("(Array %s %s)", x.ghostSort(ps[0]), x.ghostSort(ps[1]))
		}
	}
	if strings.HasPrefix(s, "set<") && strings.HasSuffix(s, ">") {
		return fmt.Sprintf("(Array %s Bool)", x.ghostSort(s[4:len(s)-1]))
	}
	x.refuse("unknown ghost sort %s", s)
	return ""
}

func (x *VC) ghostComp(n *types.Named, g *GhostField) *Comp {
	key := "F|" + shortTypeFull(n) + "|" + g.Field
	return x.comp(key, "Int", x.ghostSort(g.Sort))
}

// isLogGhost: component key of a `ghost log field G.x` (frame-exempt)
func (x *VC) isLogGhost(k string) bool {
	if !strings.HasPrefix(k, "G|") {
		return false
	}
	for _, g := range x.eng.db.Ghosts {
		if g.Log && g.Type == "G" && "G|"+g.Field == k {
			return true
		}
	}
	return false
}

func (x *VC) ghostGlobal(key string) *Comp {
	// ghost globals are declared as `ghost field G.name sort`
	for _, g := range x.eng.db.Ghosts {
		if g.Type == "G" && g.Field == key {
			return x.comp("G|"+key, "", x.ghostSort(g.Sort))
		}
	}
	x.refuse("unknown ghost global %s", key)
	return nil
}

func (x *VC) evSel(e *SExpr, env *SEnv) *Val {
	// package-qualified constant?
	if b := e.Args[0]; b.Op == "id" {
		if _, isVar := env.vars[b.Name]; !isVar {
			if _, isB := env.bound[b.Name]; !isB && b.Name != "result" {
				if b.Name == "G" {
					c := x.ghostGlobal(e.Name)
					return &Val{K: KScalar, T: x.get(env.cur, c), S: c.Sort}
				}
				for _, sp := range x.eng.prog.AllPackages() {
					if sp.Pkg.Name() == b.Name && (env.pkg == nil || sp.Pkg == env.pkg || imports(env.pkg, sp.Pkg) || strings.HasPrefix(sp.Pkg.Path(), repoPrefix)) {
						if o := sp.Pkg.Scope().Lookup(e.Name); o != nil {
							if c, ok := o.(*types.Const); ok {
								return x.constObj(c)
							}
							if v, ok := o.(*types.Var); ok {
								if g, ok := sp.Members[v.Name()].(*ssa.Global); ok {
									return x.loadAddr(&Addr{Kind: AGlobal, Glob: g, ElemT: v.Type()}, env.cur)
								}
							}
						}
					}
				}
			}
		}
	}
	base := x.evRecv(e.Args[0], env)
	return x.selField(e, base, e.Name, env)
}

// evRecv evaluates a receiver; `v.(T)` in receiver position is a cast.
func (x *VC) evRecv(e *SExpr, env *SEnv) *Val {
	if e.Op == "typeis" {
		v := x.ev(e.Args[0], env)
		t := x.resolveType(e.Name, env.pkg)
		return &Val{K: KScalar, T: v.T, S: v.S, GT: t}
	}
	return x.ev(e, env)
}

func (x *VC) selField(e *SExpr, base *Val, name string, env *SEnv) *Val {
	if base.K == KStruct {
		if su, ok := base.GT.Underlying().(*types.Struct); ok {
			for i := 0; i < su.NumFields(); i++ {
				if su.Field(i).Name() == name {
					return base.Fs[i]
				}
			}
		}
		x.specFail(e, "no field %s in struct value", name)
	}
	if base.K == KSlice {
		x.specFail(e, "field %s of slice", name)
	}
	if base.K != KScalar || base.GT == nil {
		x.specFail(e, "field selection on this value")
	}
	if strings.HasPrefix(name, "$") {
		n := namedOf(base.GT)
		if n == nil {
			x.specFail(e, "ghost field on non-named type")
		}
		for _, g := range x.eng.db.Ghosts {
			if g.Type == n.Obj().Name() && g.Field == name {
				c := x.ghostComp(n, g)
				return &Val{K: KScalar, T: sSel(x.get(env.cur, c), base.T), S: c.Elem}
			}
		}
		x.specFail(e, "unknown ghost field %s", name)
	}
	obj, path, _ := types.LookupFieldOrMethod(base.GT, true, env.pkg, name)
	if obj == nil {
		// unexported field of another package: search by name ignoring package
		obj, path = lookupFieldAnyPkg(base.GT, name)
	}
	fld, ok := obj.(*types.Var)
	if !ok || fld == nil {
		x.specFail(e, "unknown field %s of %s", name, shortType(base.GT))
	}
	cur := base
	for _, idx := range path {
		pt, isPtr := cur.GT.Underlying().(*types.Pointer)
		var su *types.Struct
		if isPtr {
			su, _ = pt.Elem().Underlying().(*types.Struct)
		}
		if cur.K == KStruct {
			cur = cur.Fs[idx]
			continue
		}
		if su == nil {
			x.specFail(e, "field path through non-struct %s", shortType(cur.GT))
		}
		f := su.Field(idx)
		cur = x.loadAddr(&Addr{Kind: AField, Base: cur.T, Owner: pt.Elem(), Path: []int{idx}, PathN: []string{f.Name()}, ElemT: f.Type()}, env.cur)
	}
	return cur
}

func lookupFieldAnyPkg(t types.Type, name string) (types.Object, []int) {
	if p, ok := t.Underlying().(*types.Pointer); ok {
		t = p.Elem()
	}
	su, ok := t.Underlying().(*types.Struct)
	if !ok {
		return nil, nil
	}
	for i := 0; i < su.NumFields(); i++ {
		if su.Field(i).Name() == name {
			return su.Field(i), []int{i}
		}
	}
	for i := 0; i < su.NumFields(); i++ {
		if su.Field(i).Embedded() {
			if o, p := lookupFieldAnyPkg(su.Field(i).Type(), name); o != nil {
				return o, append([]int{i}, p...)
			}
		}
	}
	return nil, nil
}

func (x *VC) evIdx(e *SExpr, env *SEnv) *Val {
	base := x.ev(e.Args[0], env)
	idx := x.ev(e.Args[1], env)
	if base.K == KScalar && base.GT != nil {
		if mt, ok := base.GT.Underlying().(*types.Map); ok {
			has := x.mapHas(env.cur, mt, base.T, idx.T)
			vs := x.sortOf(mt.Elem())
			r := &Val{K: KScalar, T: sIte(has, x.mapGet(env.cur, mt, base.T, idx.T), x.zero(mt.Elem()).T), S: vs, GT: mt.Elem()}
			if ti := x.elemTypeInv(base.Src); ti != nil {
				_, r.Alt = x.typeInvCond(ti, r.T)
			}
			return r
		}
	}
	switch {
	case base.K == KSlice:
		if idx.Lit != nil {
			idx = &Val{K: KScalar, T: x.ilit(idx.Lit.Int64()), S: x.idxSort(), GT: tInt}
		}
		var et types.Type
		if sl, ok := base.GT.Underlying().(*types.Slice); ok {
			et = sl.Elem()
		} else if ar, ok := base.GT.Underlying().(*types.Array); ok {
			et = ar.Elem()
		}
		return x.elemVal(base, x.toIdx(idx), et, env.cur)
	case base.K == KScalar && base.GT != nil:
		if mt, ok := base.GT.Underlying().(*types.Map); ok {
			has := x.mapHas(env.cur, mt, base.T, idx.T)
			vs := x.sortOf(mt.Elem())
			return &Val{K: KScalar, T: sIte(has, x.mapGet(env.cur, mt, base.T, idx.T), x.zero(mt.Elem()).T), S: vs, GT: mt.Elem()}
		}
	}
	if base.K == KScalar && strings.HasPrefix(base.S, "(Array ") {
		is, es := splitArraySort(base.S)
		if idx.Lit != nil {
			if is == "Int" {
				idx = &Val{K: KScalar, T: x.mathLit(idx.Lit), S: "Int"}
			} else {
				idx = &Val{K: KScalar, T: x.ilit(idx.Lit.Int64()), S: x.idxSort(), GT: tInt}
			}
		}
		return &Val{K: KScalar, T: sSel(base.T, idx.T), S: es}
	}
	x.specFail(e, "indexing of this value")
	return nil
}

func (x *VC) evCall(e *SExpr, env *SEnv) *Val {
	fe := e.Args[0]
	if fe.Op == "id" {
		name := fe.Name
		args := e.Args[1:]
		switch name {
		case "len":
			v := x.ev(args[0], env)
			switch {
			case v.K == KSlice:
				return x.scalar(v.Len, tInt)
			case v.S == "String":
				if x.mode == "bv" {
					return x.scalar("((_ int2bv 64) (str.len "+v.T+"))", tInt)
				}
				return x.scalar("(str.len "+v.T+")", tInt)
			case v.GT != nil:
				if mt, ok := v.GT.Underlying().(*types.Map); ok {
					_, _, c := x.mapComps(mt)
					return x.scalar(sIte(sEq(v.T, "0"), x.ilit(0), sSel(x.get(env.cur, c), v.T)), tInt)
				}
			}
			x.specFail(e, "len of this value")
		case "math":
			v := x.ev(args[0], env)
			if v.Lit != nil {
				return &Val{K: KScalar, T: x.mathLit(v.Lit), S: "Int", GT: types.Typ[types.UntypedInt]}
			}
			if x.mode == "bv" {
				b, _ := isIntType(v.GT)
				n, signed := x.intBits(b)
				if signed {
					t := fmt.Sprintf("(ite (bvslt %s (_ bv0 %d)) (- (bv2nat %s) %s) (bv2nat %s))", v.T, n, v.T, new(big.Int).Lsh(big.NewInt(1), uint(n)).String(), v.T)
					return &Val{K: KScalar, T: t, S: "Int", GT: types.Typ[types.UntypedInt]}
				}
				return &Val{K: KScalar, T: "(bv2nat " + v.T + ")", S: "Int", GT: types.Typ[types.UntypedInt]}
			}
			return &Val{K: KScalar, T: v.T, S: "Int", GT: types.Typ[types.UntypedInt]}
		case "box":
			// box(x): the interface value holding the scalar x (as Go boxes it at an assignment to interface{})
			v := x.ev(args[0], env)
			if v.Lit != nil {
				v = &Val{K: KScalar, T: x.ilit(v.Lit.Int64()), S: x.idxSort(), GT: tInt}
			}
			if v.K != KScalar || v.GT == nil || x.sortOf(v.GT) == "" {
				x.specFail(e, "box of a non-scalar")
			}
			if _, isB := v.GT.Underlying().(*types.Basic); !isB {
				return v // pointers, maps, interfaces are their own box
			}
			bx, _ := x.boxFns(v.GT)
			return &Val{K: KScalar, T: "(" + bx + " " + v.T + ")", S: "Int", GT: types.NewInterfaceType(nil, nil)}
		case "deref":
			// value stored behind a pointer to a scalar
			v := x.ev(args[0], env)
			pt, ok := v.GT.Underlying().(*types.Pointer)
			if !ok {
				x.specFail(e, "deref of non-pointer")
			}
			if v.K == KAddr {
				return x.loadAddr(v.A, env.cur)
			}
			return x.loadAddr(&Addr{Kind: ADeref, Base: v.T, ElemT: pt.Elem()}, env.cur)
		case "sameFirst":
			// both slices are non-empty with the same first element, or the second is empty
			a, b := x.ev(args[0], env), x.ev(args[1], env)
			if a.K != KSlice || b.K != KSlice {
				x.specFail(e, "sameFirst needs two slices")
			}
			return bval(sOr(sEq(b.Len, x.ilit(0)), sAnd(x.cmpS("<", x.ilit(0), a.Len), sEq(sSel(a.Arr, a.Off), sSel(b.Arr, b.Off)))))
		case "suffixOf", "sameSlice":
			// representation-level relations between slice values (same backing array)
			a, b := x.ev(args[0], env), x.ev(args[1], env)
			if a.K != KSlice || b.K != KSlice {
				x.specFail(e, "%s needs two slices", name)
			}
			// a slice presented at offset 0 stands for (RawArr, RawOff): the relation is about the backing arrays
			aArr, aOff, bArr, bOff := a.Arr, a.Off, b.Arr, b.Off
			if a.RawArr != "" {
				aArr, aOff = a.RawArr, a.RawOff
			}
			if b.RawArr != "" {
				bArr, bOff = b.RawArr, b.RawOff
			}
			if name == "sameSlice" {
				return bval(sAnd(sEq(aArr, bArr), sEq(aOff, bOff), sEq(a.Len, b.Len)))
			}
			return bval(sAnd(sEq(aArr, bArr), x.cmpS("<=", bOff, aOff), sEq(x.addS(aOff, a.Len), x.addS(bOff, b.Len))))
		case "spawned":
			// number of `go f()` statements executed for f (by SSA function name)
			if args[0].Op != "str" {
				x.specFail(e, "spawned needs a string literal")
			}
			c := x.comp("G|spawned:"+args[0].Name, "", "Int")
			return &Val{K: KScalar, T: x.get(env.cur, c), S: "Int", GT: types.Typ[types.UntypedInt]}
		case "received":
			// number of channel receives executed so far / lastReceived(): the last received reference
			c := x.comp("G|chan.recvs", "", "Int")
			return &Val{K: KScalar, T: x.get(env.cur, c), S: "Int", GT: types.Typ[types.UntypedInt]}
		case "lastReceived":
			c := x.comp("G|chan.lastRecv", "", "Int")
			if len(args) != 1 {
				x.specFail(e, "lastReceived(T): T is the struct type the received pointer points to")
			}
			tn := args[0].String()
			t := types.NewPointer(x.resolveType(tn, env.pkg))
			return &Val{K: KScalar, T: x.get(env.cur, c), S: "Int", GT: t}
		case "sent":
			// number of values sent on a channel
			v := x.ev(args[0], env)
			c := x.comp("G|chan.sent", "Int", "Int")
			return &Val{K: KScalar, T: sSel(x.get(env.cur, c), v.T), S: "Int", GT: types.Typ[types.UntypedInt]}
		case "strlt":
			a, b := x.ev(args[0], env), x.ev(args[1], env)
			return bval("(str.< " + a.T + " " + b.T + ")")
		case "strcat":
			var ts []string
			for _, a := range args {
				ts = append(ts, x.ev(a, env).T)
			}
			return x.scalar("(str.++ "+strings.Join(ts, " ")+")", types.Typ[types.String])
		case "strlen":
			return &Val{K: KScalar, T: "(str.len " + x.ev(args[0], env).T + ")", S: "Int", GT: types.Typ[types.UntypedInt]}
		case "contains":
			a, b := x.ev(args[0], env), x.ev(args[1], env)
			return bval("(str.contains " + a.T + " " + b.T + ")")
		case "visited":
			// visited(k): key k was already handed out by the (single) map range loop of this function
			var it *iterState
			n := 0
			for _, i := range x.iters {
				if i != nil && i.kind == "map" {
					it = i
					n++
				}
			}
			if n != 1 || it.seen == "" {
				x.specFail(e, "visited(k) needs exactly one map range loop in the function (found %d)", n)
			}
			k := x.ev(args[0], env)
			return bval(sSel(it.seen, k.T))
		case "replaceAll":
			a, b, c := x.ev(args[0], env), x.ev(args[1], env), x.ev(args[2], env)
			return x.scalar("(str.replace_all "+a.T+" "+b.T+" "+c.T+")", types.Typ[types.String])
		case "hasPrefix":
			a, b := x.ev(args[0], env), x.ev(args[1], env)
			return bval("(str.prefixof " + b.T + " " + a.T + ")")
		case "dec":
			v := x.ev(args[0], env)
			t := v.T
			if v.Lit != nil {
				t = x.mathLit(v.Lit)
			} else if x.mode == "bv" {
				t = "(bv2nat " + v.T + ")"
			}
			return x.scalar("(dec "+t+")", types.Typ[types.String])
		case "allocated":
			v := x.ev(args[0], env)
			return bval(sSel(x.get(env.cur, x.allocComp()), v.T))
		case "fresh":
			v := x.ev(args[0], env)
			return bval(sAnd(sNot(sEq(v.T, "0")), sNot(sSel(x.get(env.old, x.allocComp()), v.T))))
		case "dtype":
			v := x.ev(args[0], env)
			return &Val{K: KScalar, T: "(dtype " + v.T + ")", S: "Int"}
		case "sel":
			a, i := x.ev(args[0], env), x.ev(args[1], env)
			_, es := splitArraySort(a.S)
			if i.Lit != nil {
				i = &Val{K: KScalar, T: x.mathLit(i.Lit)}
			}
			return &Val{K: KScalar, T: sSel(a.T, i.T), S: es}
		case "upd":
			a, i, v := x.ev(args[0], env), x.ev(args[1], env), x.ev(args[2], env)
			if i.Lit != nil {
				i = &Val{K: KScalar, T: x.mathLit(i.Lit)}
			}
			if v.Lit != nil {
				_, es := splitArraySort(a.S)
				if es == "Real" {
					v = &Val{K: KScalar, T: v.Lit.String() + ".0"}
				} else {
					v = &Val{K: KScalar, T: x.mathLit(v.Lit)}
				}
			}
			return &Val{K: KScalar, T: sStore(a.T, i.T, v.T), S: a.S}
		case "boxed":
			// boxed(v): the interface value holding the scalar v
			v := x.ev(args[0], env)
			bx, _ := x.boxFns(v.GT)
			return &Val{K: KScalar, T: "(" + bx + " " + v.T + ")", S: "Int", GT: types.NewInterfaceType(nil, nil)}
		case "int", "int32", "int64", "uint32", "uint64", "uint", "int8", "int16", "uint8", "uint16":
			v := x.ev(args[0], env)
			to := types.Universe.Lookup(name).Type()
			if v.Lit != nil {
				return x.scalar(x.intLit(v.Lit, to), to)
			}
			saved := x.noOvf
			x.noOvf = true
			r := x.convert(v, v.GT, to, "true", "", env.cur)
			x.noOvf = saved
			return r
		}
		if fd, ok := x.eng.db.Funcs[name]; ok {
			if len(fd.Params) != len(args) {
				x.specFail(e, "function %s expects %d arguments", name, len(fd.Params))
			}
			fpkg := x.eng.pkgByPath(fd.Pkg)
			if fpkg == nil {
				fpkg = env.pkg
			}
			var sorts, ts []string
			for i, prm := range fd.Params {
				v := x.ev(args[i], env)
				var ps string
				switch prm.Type {
				case "int":
					ps = x.idxSort()
				case "mathint":
					ps = "Int"
				case "ref":
					ps = "Int"
				case "real":
					ps = "Real"
				default:
					ps = x.sortOf(x.resolveType(prm.Type, fpkg))
				}
				if v.Lit != nil {
					if ps == "Int" {
						v = &Val{K: KScalar, T: x.mathLit(v.Lit), S: "Int"}
					} else {
						v = &Val{K: KScalar, T: x.ilit(v.Lit.Int64()), S: ps}
					}
				}
				sorts = append(sorts, ps)
				ts = append(ts, v.T)
			}
			var rs string
			var rt types.Type
			switch fd.Sort {
			case "bool":
				rs = "Bool"
				rt = types.Typ[types.Bool]
			case "mathint":
				rs = "Int"
				rt = types.Typ[types.UntypedInt]
			case "real":
				rs = "Real"
				rt = types.Typ[types.UntypedFloat]
			case "int":
				rs = x.idxSort()
				rt = tInt
			case "ref":
				rs = "Int"
			case "string":
				rs = "String"
				rt = types.Typ[types.String]
			default:
				rt = x.resolveType(fd.Sort, fpkg)
				rs = x.sortOf(rt)
			}
			fname := "uf_" + name
			if !x.externs["decl:"+fname] {
				x.externs["decl:"+fname] = true
				decl := fmt.Sprintf("(declare-fun %s (%s) %s)", fname, strings.Join(sorts, " "), rs)
				x.script = append([]string{decl}, x.script...)
				for _, o := range x.obls {
					o.Prefix++
				}
			}
			if len(ts) == 0 {
				return &Val{K: KScalar, T: fname, S: rs, GT: rt}
			}
			return &Val{K: KScalar, T: "(" + fname + " " + strings.Join(ts, " ") + ")", S: rs, GT: rt}
		}
		if p, ok := x.eng.db.Preds[name]; ok {
			if len(p.Params) != len(args) {
				x.specFail(e, "pred %s expects %d arguments", name, len(p.Params))
			}
			if env.depth > 20 {
				x.specFail(e, "pred recursion too deep")
			}
			ne := &SEnv{x: x, vars: map[string]*Val{}, cur: env.cur, old: env.old, result: env.result, sig: env.sig, fn: env.fn, bound: map[string]*Val{}, depth: env.depth + 1} // a pred body sees only its parameters
			ne.pkg = x.eng.pkgByPath(p.Pkg)
			if ne.pkg == nil {
				ne.pkg = env.pkg
			}
			for i, prm := range p.Params {
				v := x.ev(args[i], env)
				if v.Lit != nil {
					switch prm.Type {
					case "mathint":
						v = &Val{K: KScalar, T: x.mathLit(v.Lit), S: "Int", GT: types.Typ[types.UntypedInt]}
					case "int", "interface{}", "any":
						v = &Val{K: KScalar, T: x.ilit(v.Lit.Int64()), S: x.idxSort(), GT: tInt}
					default:
						t := x.resolveType(prm.Type, ne.pkg)
						v = x.scalar(x.intLit(v.Lit, t), t)
					}
				}
				// a scalar handed to an interface-typed parameter is boxed, as Go does at a call
				if prm.Type == "interface{}" || prm.Type == "any" {
					if v.K == KScalar && v.GT != nil {
						if _, isI := v.GT.Underlying().(*types.Interface); !isI {
							if _, isB := v.GT.Underlying().(*types.Basic); isB && x.sortOf(v.GT) != "" {
								bx, _ := x.boxFns(v.GT)
								v = &Val{K: KScalar, T: "(" + bx + " " + v.T + ")", S: "Int", GT: types.NewInterfaceType(nil, nil)}
							}
						}
					}
				}
				ne.vars[prm.Name] = v
			}
			return x.ev(p.Body, ne)
		}
		// plain function of the package
		if env.pkg != nil {
			if f := x.eng.fnIndex[env.pkg.Path()+"::"+name]; f != nil {
				var avs []*Val
				for _, a := range args {
					avs = append(avs, x.ev(a, env))
				}
				return x.specCall(e, f, avs, env)
			}
		}
		x.specFail(e, "unknown function %s", name)
	}
	if fe.Op == "sel" {
		// package-qualified function or method call
		if b := fe.Args[0]; b.Op == "id" {
			_, isVar := env.vars[b.Name]
			_, isB := env.bound[b.Name]
			if !isVar && !isB && b.Name != "result" {
				_, isPred := x.eng.db.Preds[fe.Name]
				_, isFn := x.eng.db.Funcs[fe.Name]
				if isPred || isFn {
					ne := &SExpr{Op: "call", Args: append([]*SExpr{{Op: "id", Name: fe.Name}}, e.Args[1:]...)}
					return x.evCall(ne, env)
				}
				for _, sp := range x.eng.prog.AllPackages() {
					if sp.Pkg.Name() == b.Name {
						if f := sp.Func(fe.Name); f != nil {
							var avs []*Val
							for _, a := range e.Args[1:] {
								avs = append(avs, x.ev(a, env))
							}
							return x.specCall(e, f, avs, env)
						}
					}
				}
			}
		}
		recv := x.evRecv(fe.Args[0], env)
		var avs []*Val
		for _, a := range e.Args[1:] {
			avs = append(avs, x.ev(a, env))
		}
		return x.specMethodCall(e, recv, fe.Name, avs, env)
	}
	x.specFail(e, "unsupported call form")
	return nil
}

func (x *VC) specCall(e *SExpr, f *ssa.Function, args []*Val, env *SEnv) *Val {
	for i, a := range args {
		if a.Lit != nil && i < len(f.Params) {
			args[i] = x.scalar(x.intLit(a.Lit, f.Params[i].Type()), f.Params[i].Type())
		}
	}
	st := env.cur.clone()
	res := x.callStatic(f, args, nil, st, "true", "", env.depth)
	if len(res) == 0 {
		x.specFail(e, "function without result in specification")
	}
	if len(res) == 1 {
		return res[0]
	}
	return &Val{K: KStruct, Fs: res, GT: f.Signature.Results()}
}

func (x *VC) specMethodCall(e *SExpr, recv *Val, name string, args []*Val, env *SEnv) *Val {
	if recv.GT == nil {
		x.specFail(e, "method call on untyped value")
	}
	st := env.cur.clone()
	if _, isI := recv.GT.Underlying().(*types.Interface); isI {
		obj, _, _ := types.LookupFieldOrMethod(recv.GT, true, env.pkg, name)
		m, ok := obj.(*types.Func)
		if !ok {
			m = lookupMethodAnyPkg(recv.GT, name)
		}
		if m == nil {
			x.specFail(e, "unknown method %s", name)
		}
		res := x.invokeAlt(recv, recv.GT, m, args, st, env.depth)
		if len(res) == 1 {
			return res[0]
		}
		return &Val{K: KStruct, Fs: res}
	}
	ms := x.eng.prog.MethodSets.MethodSet(recv.GT)
	var sel *types.Selection
	for i := 0; i < ms.Len(); i++ {
		if ms.At(i).Obj().Name() == name {
			sel = ms.At(i)
		}
	}
	if sel == nil {
		x.specFail(e, "unknown method %s on %s", name, shortType(recv.GT))
	}
	f := x.eng.prog.MethodValue(sel)
	return x.specCall(e, f, append([]*Val{recv}, args...), env)
}

func lookupMethodAnyPkg(t types.Type, name string) *types.Func {
	it, ok := t.Underlying().(*types.Interface)
	if !ok {
		return nil
	}
	for i := 0; i < it.NumMethods(); i++ {
		if it.Method(i).Name() == name {
			return it.Method(i)
		}
	}
	return nil
}

// invokeAlt is invoke() restricted by the value's known alternatives.
func (x *VC) invokeAlt(recv *Val, ifaceT types.Type, m *types.Func, args []*Val, st *State, depth int) []*Val {
	return x.invoke(recv, ifaceT, m, args, st, "true", "", depth)
}

// ---- type invariants -----------------------------------------------------------------

func (x *VC) typeInvFor(a *Addr) *TypeInv {
	n := namedOf(a.Owner)
	if n == nil || len(a.PathN) == 0 {
		return nil
	}
	path := strings.Join(a.PathN, "/")
	for _, ti := range x.eng.db.TypeInvs {
		if ti.Type == n.Obj().Name() && ti.Field == path && n.Obj().Pkg() != nil && n.Obj().Pkg().Path() == ti.Pkg {
			return ti
		}
	}
	return nil
}

func (x *VC) typeInvCond(ti *TypeInv, term string) (string, []types.Type) {
	pkg := x.eng.pkgByPath(ti.Pkg)
	alts := []string{}
	var ts []types.Type
	for _, a := range ti.Alts {
		if a == "nil" {
			alts = append(alts, sEq(term, "0"))
			continue
		}
		t := x.resolveType(a, pkg)
		ts = append(ts, t)
		alts = append(alts, sAnd(sNot(sEq(term, "0")), sEq("(dtype "+term+")", x.tag(t))))
	}
	return sOr(alts...), ts
}

func (x *VC) typeInvFacts(a *Addr, v *Val) {
	ti := x.typeInvFor(a)
	if ti == nil {
		return
	}
	c, ts := x.typeInvCond(ti, v.T)
	v.Alt = ts
	x.fact(c)
	x.externs["typeinv assumed on load: "+ti.Type+"."+ti.Field] = true
}

// elemTypeInv: `typeinv Type.field[] : alts` constrains the elements of a map/slice-valued field.
func (x *VC) elemTypeInv(src string) *TypeInv {
	if src == "" {
		return nil
	}
	for _, ti := range x.eng.db.TypeInvs {
		if ti.Type+"."+ti.Field == src+"[]" {
			return ti
		}
	}
	return nil
}

func (x *VC) elemTypeInvFacts(src string, v *Val, nilOK bool) {
	ti := x.elemTypeInv(src)
	if ti == nil {
		return
	}
	c, ts := x.typeInvCond(ti, v.T)
	v.Alt = ts
	if nilOK {
		c = sOr(sEq(v.T, "0"), c)
	}
	x.fact(c)
	x.externs["typeinv assumed on load: "+ti.Type+"."+ti.Field] = true
}

func (x *VC) checkElemTypeInv(src string, v *Val, reach, pos string) {
	ti := x.elemTypeInv(src)
	if ti == nil || v.K != KScalar {
		return
	}
	c, _ := x.typeInvCond(ti, v.T)
	x.addObl("typeinv", ti.Type+"."+ti.Field, pos, reach, c)
}

func (x *VC) checkTypeInv(a *Addr, v *Val, reach, pos string) {
	ti := x.typeInvFor(a)
	if ti == nil || v.K != KScalar {
		return
	}
	c, _ := x.typeInvCond(ti, v.T)
	x.addObl("typeinv", ti.Type+"."+ti.Field, pos, reach, c)
}

// ---- loops ------------------------------------------------------------------------------

// rangedSlice finds the slice of `for i, v := range s`: the header compares rangeindex+1 with len(s).
func rangedSlice(h *ssa.BasicBlock, phi *ssa.Phi) ssa.Value {
	for _, ins := range h.Instrs {
		b, ok := ins.(*ssa.BinOp)
		if !ok || b.Op != token.LSS {
			continue
		}
		inc, ok := b.X.(*ssa.BinOp)
		if !ok || inc.Op != token.ADD || inc.X != ssa.Value(phi) {
			continue
		}
		c, ok := b.Y.(*ssa.Call)
		if !ok {
			continue
		}
		if bi, ok := c.Call.Value.(*ssa.Builtin); ok && bi.Name() == "len" && len(c.Call.Args) == 1 {
			if _, ok := c.Call.Args[0].Type().Underlying().(*types.Slice); ok {
				return c.Call.Args[0]
			}
		}
	}
	return nil
}

func (fr *Frame) loopVars(h *ssa.BasicBlock, st *State) map[string]*Val {
	vars := map[string]*Val{}
	for i, p := range fr.fn.Params {
		if i < len(fr.params) {
			vars[p.Name()] = fr.params[i]
		}
	}
	// phis of this and enclosing headers, by source name
	// (outermost first, so that the innermost loop's variable of a given name wins; the variable of loop k is
	// always reachable as name$k)
	var hbs []*ssa.BasicBlock
	for hb := range fr.headers {
		if hb == h || hb.Dominates(h) {
			hbs = append(hbs, hb)
		}
	}
	sort.Slice(hbs, func(i, j int) bool {
		if hbs[i] == hbs[j] {
			return false
		}
		return hbs[i].Dominates(hbs[j])
	})
	for _, hb := range hbs {
		for _, ins := range hb.Instrs {
			phi, ok := ins.(*ssa.Phi)
			if !ok {
				break
			}
			if v, ok := fr.vals[phi]; ok && phi.Comment != "" {
				vars[phi.Comment] = v
				vars[fmt.Sprintf("%s$%d", phi.Comment, fr.loopOrd[hb])] = v
			}
			if phi.Comment == "rangeindex" {
				// the slice a `range` loop walks is visible as rangeover / rangeover$k (it may have no source name)
				if sl := rangedSlice(hb, phi); sl != nil {
					if v, ok := fr.vals[sl]; ok {
						vars["rangeover"] = v
						vars[fmt.Sprintf("rangeover$%d", fr.loopOrd[hb])] = v
					}
				}
			}
		}
	}
	// named locals defined once before the loop (from DebugRef instructions)
	amb := map[string]bool{}
	cand := map[string]*Val{}
	candV := map[string]ssa.Value{}
	for _, b := range fr.fn.Blocks {
		if b != h && !b.Dominates(h) {
			continue
		}
		for _, ins := range b.Instrs {
			d, ok := ins.(*ssa.DebugRef)
			if !ok || d.IsAddr {
				continue
			}
			id, ok := d.Expr.(*ast.Ident)
			if !ok || id.Name == "_" {
				continue
			}
			if _, isPhi := d.X.(*ssa.Phi); isPhi {
				continue
			}
			v, ok := fr.vals[d.X]
			if !ok {
				continue
			}
			if pv, seen := candV[id.Name]; seen && pv != d.X {
				amb[id.Name] = true
			}
			cand[id.Name], candV[id.Name] = v, d.X
		}
	}
	for n, v := range cand {
		if _, exists := vars[n]; !exists && !amb[n] {
			vars[n] = v
		}
	}
	// address-taken locals
	for _, b := range fr.fn.Blocks {
		for _, ins := range b.Instrs {
			if a, ok := ins.(*ssa.Alloc); ok && a.Comment != "" {
				if v, ok := st.C[a]; ok {
					if _, exists := vars[a.Comment]; !exists {
						vars[a.Comment] = v
					}
				} else if pv, ok := fr.vals[a]; ok && pv.K == KScalar && (b == h || b.Dominates(h)) {
					// a local whose address escapes lives on the heap: its name denotes the object (fields by auto-deref)
					if _, exists := vars[a.Comment]; !exists {
						vars[a.Comment] = pv
					}
				}
			}
		}
	}
	return vars
}

func (fr *Frame) loopEnv(h *ssa.BasicBlock, st *State) *SEnv {
	return &SEnv{x: fr.x, vars: fr.loopVars(h, st), cur: st, old: fr.entrySt, fn: fr.fn, pkg: fr.pkgOf()}
}

func (fr *Frame) pkgOf() *types.Package {
	if fr.fn.Pkg != nil {
		return fr.fn.Pkg.Pkg
	}
	return nil
}

func (fr *Frame) loopSpec(h *ssa.BasicBlock) *LoopSpec {
	x := fr.x
	var c *Contract
	if fr.top {
		c = x.c
	} else {
		c = x.eng.contractOf(fr.fn)
	}
	if c == nil {
		return nil
	}
	return c.Loops[fr.loopOrd[h]]
}

// writeSet over-approximates what the loop body writes (heap components, cells).
func (fr *Frame) writeSet(h *ssa.BasicBlock, st *State) (map[string]bool, map[*ssa.Alloc]bool, bool) {
	x := fr.x
	body := loopBody(fr.fn, h)
	comps := map[string]bool{}
	cells := map[*ssa.Alloc]bool{}
	all := false
	seenFn := map[*ssa.Function]bool{}
	var scanFn func(f *ssa.Function, blocks map[*ssa.BasicBlock]bool, depth int)
	addField := func(owner types.Type, path []string, ft types.Type) {
		key := "F|" + shortTypeFull(owner) + "|" + strings.Join(path, ".")
		ad := &Addr{Kind: AField, Owner: owner, PathN: path, ElemT: ft}
		switch u := ft.Underlying().(type) {
		case *types.Slice:
			comps[x.fieldComp(ad, "#arr").Key], comps[x.fieldComp(ad, "#off").Key], comps[x.fieldComp(ad, "#len").Key] = true, true, true
		case *types.Struct:
			var walk func(su *types.Struct, p []string)
			walk = func(su *types.Struct, p []string) {
				for i := 0; i < su.NumFields(); i++ {
					f := su.Field(i)
					np := append(append([]string{}, p...), f.Name())
					if s2, ok := f.Type().Underlying().(*types.Struct); ok {
						walk(s2, np)
						continue
					}
					a2 := &Addr{Kind: AField, Owner: owner, PathN: np, ElemT: f.Type()}
					if _, ok := f.Type().Underlying().(*types.Slice); ok {
						comps[x.fieldComp(a2, "#arr").Key], comps[x.fieldComp(a2, "#off").Key], comps[x.fieldComp(a2, "#len").Key] = true, true, true
					} else if x.sortOf(f.Type()) != "" {
						comps[x.fieldComp(a2, "").Key] = true
					}
				}
			}
			walk(u, path)
		default:
			if x.sortOf(ft) != "" {
				comps[x.fieldComp(ad, "").Key] = true
			} else {
				comps[key] = true
			}
		}
	}
	var addrOf func(v ssa.Value) (types.Type, []string, types.Type, *ssa.Alloc, bool)
	addrOf = func(v ssa.Value) (types.Type, []string, types.Type, *ssa.Alloc, bool) {
		switch a := v.(type) {
		case *ssa.FieldAddr:
			pt := a.X.Type().Underlying().(*types.Pointer)
			su := pt.Elem().Underlying().(*types.Struct)
			f := su.Field(a.Field)
			if o, p, _, cell, ok := addrOf(a.X); ok {
				if cell != nil {
					return nil, nil, nil, cell, true
				}
				if o != nil {
					return o, append(append([]string{}, p...), f.Name()), f.Type(), nil, true
				}
			}
			return pt.Elem(), []string{f.Name()}, f.Type(), nil, true
		case *ssa.Alloc:
			if cellLike(a) {
				return nil, nil, nil, a, true
			}
			return nil, nil, nil, nil, false
		case *ssa.IndexAddr:
			if _, _, _, cell, ok := addrOf(a.X); ok && cell != nil {
				return nil, nil, nil, cell, true
			}
			return nil, nil, nil, nil, false
		case *ssa.FreeVar:
			return nil, nil, nil, nil, false
		}
		return nil, nil, nil, nil, false
	}
	var scanCall func(cc *ssa.CallCommon, depth int)
	scanCallee := func(f *ssa.Function, depth int) {
		if f == nil {
			all = true
			return
		}
		if c := x.eng.contractOf(f); c != nil {
			if c.ModAll {
				all = true
			}
			env := &SEnv{x: x, pkg: nil}
			if f.Pkg != nil {
				env.pkg = f.Pkg.Pkg
			} else {
				env.pkg = x.eng.pkgByPath(c.Pkg)
			}
			for _, m := range c.Modifies {
				sel, _ := splitModAt(m)
				for _, cp := range x.resolveModifies(sel, env) {
					comps[cp.Key] = true
				}
			}
			if c.Fresh {
				comps[x.allocComp().Key] = true
			}
			return
		}
		if returnsOnlyLogger(f.Signature) || isStringer(f) {
			return
		}
		if f.Pkg != nil {
			p := f.Pkg.Pkg.Path()
			if p == repoPrefix+"client/pkg/log" || p == "github.com/sirupsen/logrus" || p == "runtime/debug" || p == "log" {
				return
			}
		}
		switch f.String() {
		case "fmt.Sprintf":
			return
		case "fmt.Fprintf", "(*strings.Builder).WriteString":
			comps[x.comp("F|strings.Builder|$content", "Int", "String").Key] = true
			return
		case "(*strings.Builder).String":
			return
		}
		if f.Blocks == nil || depth > x.maxDepth+2 {
			all = true
			return
		}
		if seenFn[f] {
			return
		}
		seenFn[f] = true
		scanFn(f, nil, depth+1)
	}
	scanCall = func(cc *ssa.CallCommon, depth int) {
		if cc.IsInvoke() {
			it := cc.Value.Type()
			if n, ok := it.(*types.Named); ok && n.Obj().Pkg() != nil {
				if c := x.eng.db.Contracts[n.Obj().Pkg().Path()+"::"+n.Obj().Name()+"."+cc.Method.Name()]; c != nil {
					if c.ModAll {
						all = true
					}
					env := &SEnv{x: x, pkg: n.Obj().Pkg()}
					for _, m := range c.Modifies {
						sel, _ := splitModAt(m)
						for _, cp := range x.resolveModifies(sel, env) {
							comps[cp.Key] = true
						}
					}
					return
				}
			}
			if p := cc.Method.Pkg(); p != nil && (p.Path() == repoPrefix+"client/pkg/log") {
				return
			}
			if returnsOnlyLogger(cc.Signature()) {
				return
			}
			if mn := cc.Method.Name(); (mn == "Error" || mn == "String") && cc.Signature().Params().Len() == 0 {
				return
			}
			impls := x.eng.implementers(it)
			if impls == nil {
				all = true
				return
			}
			for _, ct := range impls {
				sel := x.eng.prog.MethodSets.MethodSet(ct).Lookup(cc.Method.Pkg(), cc.Method.Name())
				if sel == nil {
					continue
				}
				scanCallee(x.eng.prog.MethodValue(sel), depth)
			}
			return
		}
		if b, ok := cc.Value.(*ssa.Builtin); ok {
			if b.Name() == "delete" {
				mt := cc.Args[0].Type().Underlying().(*types.Map)
				d, _, c := x.mapComps(mt)
				comps[d.Key], comps[c.Key] = true, true
			}
			return
		}
		if f := cc.StaticCallee(); f != nil {
			scanCallee(f, depth)
			return
		}
		if mc, ok := cc.Value.(*ssa.MakeClosure); ok {
			scanCallee(mc.Fn.(*ssa.Function), depth)
			return
		}
		all = true
	}
	scanFn = func(f *ssa.Function, blocks map[*ssa.BasicBlock]bool, depth int) {
		for _, b := range f.Blocks {
			if blocks != nil && !blocks[b] {
				continue
			}
			for _, ins := range b.Instrs {
				switch i := ins.(type) {
				case *ssa.Store:
					if o, p, ft, cell, ok := addrOf(i.Addr); ok {
						if cell != nil {
							cells[cell] = true
						} else {
							addField(o, p, ft)
						}
					} else {
						// store through a pointer value
						if pt, ok := i.Addr.Type().Underlying().(*types.Pointer); ok {
							if su, ok := pt.Elem().Underlying().(*types.Struct); ok {
								for k := 0; k < su.NumFields(); k++ {
									addField(pt.Elem(), []string{su.Field(k).Name()}, su.Field(k).Type())
								}
							} else if s := x.sortOf(pt.Elem()); s != "" {
								comps[x.comp("P|"+shortTypeFull(pt.Elem()), "Int", s).Key] = true
							} else {
								all = true
							}
						}
					}
				case *ssa.MapUpdate:
					mt := i.Map.Type().Underlying().(*types.Map)
					d, v, c := x.mapComps(mt)
					comps[d.Key], comps[v.Key], comps[c.Key] = true, true, true
				case *ssa.MakeMap:
					mt := i.Type().Underlying().(*types.Map)
					d, _, c := x.mapComps(mt)
					comps[d.Key], comps[c.Key], comps[x.allocComp().Key] = true, true, true
				case *ssa.Alloc:
					if cellLike(i) {
						cells[i] = true
					} else {
						comps[x.allocComp().Key] = true
					}
				case *ssa.MakeChan:
					comps[x.allocComp().Key] = true
				case *ssa.Send:
					comps[x.comp("G|chan.sent", "Int", "Int").Key] = true
				case *ssa.Call:
					scanCall(&i.Call, depth)
				case *ssa.Defer:
					scanCall(&i.Call, depth)
				case *ssa.Go:
				}
			}
		}
	}
	scanFn(fr.fn, body, 0)
	return comps, cells, all
}

func (fr *Frame) loopHeader(h *ssa.BasicBlock, st *State, reach string) (*State, string) {
	x := fr.x
	ls := fr.loopSpec(h)
	ord := fr.loopOrd[h]
	if ls == nil {
		x.refuse("loop %d of %s (block %d, %s) has no invariant", ord, fnKeyShort(fr.fn), h.Index, h.Comment)
	}
	pos := x.curPos
	if len(h.Instrs) > 0 {
		for _, i := range h.Instrs {
			if p := x.posOf(i); p != "" {
				pos = p
				break
			}
		}
	}
	// (1) invariant holds on entry
	env := fr.loopEnv(h, st)
	for i, inv := range ls.Inv {
		c := x.evalSpec(inv.E, env)
		lbl := inv.Label
		if lbl == "" {
			lbl = fmt.Sprintf("%d", i)
		}
		x.addObl(fmt.Sprintf("loop%d:invariant-entry", ord), lbl, pos, reach, c.T)
	}
	// (2) havoc everything the loop writes
	comps, cells, all := fr.writeSet(h, st)
	nst := st.clone()
	if all {
		x.havocAll(nst)
	}
	keys := make([]string, 0, len(comps))
	for k := range comps {
		keys = append(keys, k)
	}
	sortStrings(keys)
	for _, k := range keys {
		if strings.HasSuffix(k, ".*") {
			pre := strings.TrimSuffix(k, "*")
			for _, ck := range x.compOrder {
				if strings.HasPrefix(ck, pre) {
					x.havocComp(nst, x.comps[ck])
				}
			}
			continue
		}
		cp, ok := x.comps[k]
		if !ok {
			continue // never touched so far: first touch after the loop would read the entry epoch; force a fresh epoch instead
		}
		x.havocComp(nst, cp)
	}
	for cell := range cells {
		if v, ok := nst.C[cell]; ok {
			nst.C[cell] = x.havocVal(v, cell.Comment)
		}
	}
	for _, ins := range h.Instrs {
		phi, ok := ins.(*ssa.Phi)
		if !ok {
			break
		}
		fr.vals[phi] = x.havocVal(fr.vals[phi], phi.Comment)
	}
	// map iterators advanced in the loop
	for b := range loopBody(fr.fn, h) {
		for _, ins := range b.Instrs {
			if nx, ok := ins.(*ssa.Next); ok {
				if rng, ok := nx.Iter.(*ssa.Range); ok {
					if it := x.iters[rng]; it != nil && it.kind == "map" {
						ks := x.keySort(it.mt)
						it.seen = x.declare("seen", fmt.Sprintf("(Array %s Bool)", ks))
					}
				}
			}
		}
	}
	nreach := x.define(fmt.Sprintf("loop%d_iter", ord), "Bool", reach)
	// (2a) automatic invariant of `range` loops over slices: the hidden index starts at -1 and only grows
	for _, ins := range h.Instrs {
		phi, ok := ins.(*ssa.Phi)
		if !ok {
			break
		}
		if phi.Comment == "rangeindex" {
			x.assume(nreach, sAnd(x.cmpS("<=", x.ilit(-1), fr.vals[phi].T), x.cmpS("<=", fr.vals[phi].T, x.ilit(4611686018427387904))))
		}
	}
	// (2b) automatic frame invariant: components outside the contract's modifies clause change only
	// at objects allocated since function entry (checked again on every back edge)
	if fr.top && x.c != nil && !x.c.ModAll && x.c.Trusted == "" && !all {
		auto := fr.autoFrameKeys(keys, fr.loopEnv(h, nst))
		for _, k := range auto {
			cp := x.comps[k]
			x.assume(nreach, x.frameCond(cp, x.get(nst, cp), x.get(fr.entrySt, cp), x.get(fr.entrySt, x.allocComp()), fr.autoExcept[k]))
		}
		fr.hdrAuto[h] = auto
	}
	// (3) assume the invariant
	env2 := fr.loopEnv(h, nst)
	fr.hdrEnv[h] = env2.vars
	for _, inv := range ls.Inv {
		c := x.evalSpec(inv.E, env2)
		x.assume(nreach, c.T)
	}
	for _, as := range ls.Assume {
		c := x.evalSpec(as.E, env2)
		x.assume(nreach, c.T)
		x.externs[fmt.Sprintf("assumed at loop %d of %s [%s]: %s", fr.loopOrd[h], fnKeyShort(fr.fn), as.Label, strings.TrimSpace(as.Src))] = true
	}
	if ls.Dec != nil {
		d := x.evalSpec(ls.Dec, env2)
		fr.hdrDec[h] = d.T
	}
	return nst, nreach
}

// autoFrameKeys: loop-written heap components (indexed by object) that the contract does not list,
// or lists only for named objects (`T.f @ obj`: then every other object allocated at entry keeps its value).
func (fr *Frame) autoFrameKeys(keys []string, env0 *SEnv) []string {
	x := fr.x
	allowed := map[string]bool{"alloc": true}
	env := &SEnv{x: x, pkg: fr.pkgOf()}
	if fr.autoExcept == nil {
		fr.autoExcept = map[string][]string{}
	}
	except := map[string][]string{}
	for _, m := range x.c.Modifies {
		sel, at := splitModAt(m)
		for _, cp := range x.resolveModifies(sel, env) {
			if at != "" && cp.Idx == "Int" && env0 != nil {
				if strings.Contains(at, "result") {
					continue // a fresh result is not allocated at entry
				}
				ae, err := parseSpecExpr(at)
				if err != nil {
					x.refuse("modifies %s: %v", m, err)
				}
				except[cp.Key] = append(except[cp.Key], x.evalSpec(ae, env0.with(fr.entrySt)).T)
				continue
			}
			allowed[cp.Key] = true
		}
	}
	var out []string
	for _, k := range keys {
		cp, ok := x.comps[k]
		if !ok || allowed[k] || cp.Idx != "Int" || strings.HasPrefix(k, "F|strings.Builder|") || x.isLogGhost(k) {
			continue
		}
		fr.autoExcept[k] = except[k]
		out = append(out, k)
	}
	return out
}

func (x *VC) frameCond(cp *Comp, now, was, allocEntry string, except []string) string {
	if now == was {
		return "true"
	}
	guard := "(select " + allocEntry + " r)"
	for _, ref := range except {
		guard = sAnd(guard, sNot(sEq("r", ref)))
	}
	return fmt.Sprintf("(forall ((r Int)) (! (=> %s (= (select %s r) (select %s r))) :pattern ((select %s r))))", guard, now, was, now)
}

func sortStrings(s []string) {
	for i := 1; i < len(s); i++ {
		for j := i; j > 0 && s[j] < s[j-1]; j-- {
			s[j], s[j-1] = s[j-1], s[j]
		}
	}
}

// pendingHavoc makes components that do not exist yet read as havocked after the loop.
func (x *VC) pendingHavoc(st *State, keys []string) {
	// Simplest sound treatment: a fresh epoch for all untouched components.
	saved := map[string]string{}
	for k, v := range st.H {
		saved[k] = v
	}
	// materialise every known component first so that they keep their current version
	for _, k := range x.compOrder {
		if _, ok := saved[k]; !ok {
			saved[k] = x.get(st, x.comps[k])
		}
	}
	st.ep = x.newEpoch("havoc", st.ep)
	st.H = saved
}

func (x *VC) havocVal(v *Val, hint string) *Val {
	if v == nil {
		return nil
	}
	switch v.K {
	case KScalar:
		n := x.declare("hv_"+hint, v.S)
		r := &Val{K: KScalar, T: n, S: v.S, GT: v.GT}
		x.typeFacts(r, nil)
		return r
	case KSlice:
		r := &Val{K: KSlice, ES: v.ES, GT: v.GT}
		r.Arr = x.declare("hv_"+hint+"_arr", fmt.Sprintf("(Array %s %s)", x.idxSort(), v.ES))
		r.Off = x.declare("hv_"+hint+"_off", x.idxSort())
		r.Len = x.declare("hv_"+hint+"_len", x.idxSort())
		x.fact(sAnd(x.cmpS("<=", x.ilit(0), r.Len), x.cmpS("<=", x.ilit(0), r.Off)))
		if x.mode == "math" {
			x.fact("(<= " + r.Len + " 4611686018427387904)")
			x.fact("(<= " + r.Off + " 4611686018427387904)")
		}
		return r
	case KStruct:
		r := &Val{K: KStruct, GT: v.GT}
		for i, f := range v.Fs {
			r.Fs = append(r.Fs, x.havocVal(f, fmt.Sprintf("%s_%d", hint, i)))
		}
		return r
	}
	return v
}

func (fr *Frame) backEdge(from, h *ssa.BasicBlock, st *State) {
	x := fr.x
	ls := fr.loopSpec(h)
	if ls == nil {
		return
	}
	ord := fr.loopOrd[h]
	reach := sAnd(fr.reach[from], fr.econd[[2]int{from.Index, h.Index}])
	// values of the phis along this edge
	pi := -1
	for i, p := range h.Preds {
		if p == from {
			pi = i
		}
	}
	saved := map[*ssa.Phi]*Val{}
	var phis []*ssa.Phi
	var newVals []*Val
	for _, ins := range h.Instrs {
		phi, ok := ins.(*ssa.Phi)
		if !ok {
			break
		}
		phis = append(phis, phi)
		newVals = append(newVals, fr.value(phi.Edges[pi]))
	}
	for i, phi := range phis {
		saved[phi] = fr.vals[phi]
		fr.vals[phi] = newVals[i]
	}
	env := fr.loopEnv(h, st)
	pos := x.curPos
	for i, inv := range ls.Inv {
		c := x.evalSpec(inv.E, env)
		lbl := inv.Label
		if lbl == "" {
			lbl = fmt.Sprintf("%d", i)
		}
		x.addObl(fmt.Sprintf("loop%d:invariant-preserved", ord), lbl, pos, reach, c.T)
	}
	for _, phi := range phis {
		if phi.Comment == "rangeindex" {
			x.addObl(fmt.Sprintf("loop%d:range-index", ord), "", pos, reach, sAnd(x.cmpS("<=", x.ilit(-1), fr.vals[phi].T), x.cmpS("<=", fr.vals[phi].T, x.ilit(4611686018427387904))))
		}
	}
	for _, k := range fr.hdrAuto[h] {
		cp := x.comps[k]
		x.addObl(fmt.Sprintf("loop%d:frame-preserved", ord), k, pos, reach, x.frameCond(cp, x.get(st, cp), x.get(fr.entrySt, cp), x.get(fr.entrySt, x.allocComp()), fr.autoExcept[k]))
	}
	if ls.Dec != nil {
		d1 := x.evalSpec(ls.Dec, env)
		d0 := fr.hdrDec[h]
		x.addObl(fmt.Sprintf("loop%d:decreases", ord), "", pos, reach, sAnd(x.cmpS("<", d1.T, d0), x.cmpS("<=", x.ilit(0), d0)))
	}
	for phi, v := range saved {
		fr.vals[phi] = v
	}
}

// ---- postconditions ------------------------------------------------------------------------

func (x *VC) topEnv(fr *Frame, res []*Val, st *State) *SEnv {
	env := &SEnv{x: x, vars: map[string]*Val{}, cur: st, old: fr.entrySt, result: res, sig: fr.fn.Signature, fn: fr.fn, pkg: fr.pkgOf()}
	// address-taken locals are visible to postconditions by their source name
	for _, b := range fr.fn.Blocks {
		for _, ins := range b.Instrs {
			if a, ok := ins.(*ssa.Alloc); ok && a.Comment != "" {
				if v, ok := st.C[a]; ok {
					env.vars[a.Comment] = v
				} else if pv, ok := fr.vals[a]; ok && pv.K == KScalar {
					if _, exists := env.vars[a.Comment]; !exists {
						env.vars[a.Comment] = pv
					}
				}
			}
		}
	}
	for i, p := range fr.fn.Params {
		if i < len(fr.params) {
			env.vars[p.Name()] = fr.params[i]
		}
	}
	// named locals with a single definition (ensures-local clauses may mention them)
	amb := map[string]bool{}
	cand := map[string]*Val{}
	candV := map[string]ssa.Value{}
	for _, b := range fr.fn.Blocks {
		for _, ins := range b.Instrs {
			d, ok := ins.(*ssa.DebugRef)
			if !ok || d.IsAddr {
				continue
			}
			id, ok := d.Expr.(*ast.Ident)
			if !ok || id.Name == "_" {
				continue
			}
			if _, isPhi := d.X.(*ssa.Phi); isPhi {
				amb[id.Name] = true
				continue
			}
			v, ok := fr.vals[d.X]
			if !ok {
				continue
			}
			if pv, seen := candV[id.Name]; seen && pv != d.X {
				amb[id.Name] = true
			}
			cand[id.Name], candV[id.Name] = v, d.X
		}
	}
	for n, v := range cand {
		if strings.HasPrefix(n, "result") {
			continue // `result`, `resultN` are the specification's names for the return values
		}
		if _, exists := env.vars[n]; !exists && !amb[n] {
			env.vars[n] = v
		}
	}
	return env
}

func (x *VC) checkEnsures(fr *Frame, res []*Val, st *State, reach, pos string) {
	if x.c == nil {
		return
	}
	st = st.clone()
	env := x.topEnv(fr, res, st)
	// ghost effects at exit
	for _, g := range x.c.GhostEx {
		x.ghostAssign(g, env, st)
	}
	ens := x.c.Ensures
	kind := "ensures"
	if x.c.Trusted != "" {
		// a trusted contract: its `ensures` are assumed (driver / library semantics); what is proved on the body
		// are its `checks` clauses (typically: which query is sent, which errors are reported)
		ens = x.c.Checks
		kind = "checks"
	}
	for i, e := range ens {
		c := x.evalSpec(e.E, env)
		lbl := e.Label
		if lbl == "" {
			lbl = fmt.Sprintf("%d", i)
		}
		o := x.addObl(kind, lbl, pos, reach, c.T)
		if o != nil {
			o.Note = e.Src
		}
	}
	// frame: components outside `modifies` are unchanged
	if !x.c.ModAll && !x.c.Lemma && x.c.Trusted == "" {
		allowed := map[string]bool{"alloc": true}
		allowedAt := map[string][]string{}
		oldEnv := env.with(fr.entrySt)
		for _, m := range x.c.Modifies {
			sel, at := splitModAt(m)
			for _, cp := range x.resolveModifies(sel, env) {
				if at != "" {
					ae, err := parseSpecExpr(at)
					if err != nil {
						x.refuse("modifies %s: %v", m, err)
					}
					allowedAt[cp.Key] = append(allowedAt[cp.Key], x.evalSpec(ae, oldEnv).T)
					continue
				}
				allowed[cp.Key] = true
			}
		}
		for _, k := range x.compOrder {
			if allowed[k] || strings.HasPrefix(k, "F|strings.Builder|") || x.isLogGhost(k) {
				continue
			}
			cp := x.comps[k]
			now := x.get(st, cp)
			was := x.get(fr.entrySt, cp)
			if now == was {
				continue
			}
			// the component may differ only at objects allocated by this call
			var cond string
			if cp.Idx == "Int" {
				cond = x.frameCond(cp, now, was, x.get(fr.entrySt, x.allocComp()), allowedAt[k])
			} else {
				cond = sEq(now, was)
			}
			x.addObl("frame", k, pos, reach, cond)
		}
	}
}

func (x *VC) ghostAssign(g GhostAssign, env *SEnv, st *State) {
	rhs := x.evalSpec(g.RHS, env)
	lhs := g.LHS
	switch lhs.Op {
	case "sel":
		if b := lhs.Args[0]; b.Op == "id" && b.Name == "G" {
			c := x.ghostGlobal(lhs.Name)
			x.set(st, c, rhs.T)
			return
		}
		base := x.evalSpec(lhs.Args[0], env)
		n := namedOf(base.GT)
		for _, gf := range x.eng.db.Ghosts {
			if n != nil && gf.Type == n.Obj().Name() && gf.Field == lhs.Name {
				c := x.ghostComp(n, gf)
				if rhs.Lit != nil && c.Elem == "Real" {
					rhs = &Val{K: KScalar, T: rhs.Lit.String() + ".0"}
				}
				x.set(st, c, sStore(x.get(st, c), base.T, rhs.T))
				return
			}
		}
	}
	x.refuse("ghost-exit: unsupported left-hand side %s", lhs.String())
}

// patternTerm makes a trigger term acceptable to the solvers: a guarded map read
// (ite guard (select (select val m) k) zero) is replaced by its raw read.
func patternTerm(t string) string {
	if !strings.HasPrefix(t, "(ite ") {
		return t
	}
	// split the three arguments of the ite
	var args []string
	d, start := 0, 5
	for i := 5; i < len(t)-1; i++ {
		switch t[i] {
		case '(':
			d++
		case ')':
			d--
		case ' ':
			if d == 0 {
				args = append(args, t[start:i])
				start = i + 1
			}
		case '|':
			j := strings.IndexByte(t[i+1:], '|')
			if j >= 0 {
				i += j + 1
			}
		}
	}
	args = append(args, t[start:len(t)-1])
	if len(args) == 3 && strings.HasPrefix(args[1], "(select ") {
		return args[1]
	}
	return t
}
