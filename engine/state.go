package main

// Values, heap components and symbolic states.

import (
	"fmt"
	"go/types"
	"math/big"
	"sort"
	"strings"

	"golang.org/x/tools/go/ssa"
)

type VKind int

const (
	KScalar VKind = iota
	KSlice
	KStruct // struct value or tuple
	KAddr
	KClosure
	KUnit
	KIter
)

type Val struct {
	K              VKind
	T              string // SMT term (scalar)
	S              string // SMT sort (scalar)
	Arr            string // slice: (Array IDX ES)
	Off            string
	Len            string
	ES             string
	Fs             []*Val
	A              *Addr
	Fn             *ssa.Function
	Bnd            []*Val
	GT             types.Type
	Box            *Val         // for interface values created by MakeInterface in this VC: the boxed value
	Lit            *big.Int     // untyped integer literal of a specification
	Alt            []types.Type // possible dynamic types (from typeinv / allocation); nil = unknown
	Src            string       // provenance of map/slice values loaded from a field: "Type.field"
	RawArr, RawOff string       // slice loaded from the heap and presented at offset 0: the backing array and offset it stands for
	// KIter: map iteration state
	It *iterState
}

type AddrKind int

const (
	AField  AddrKind = iota // field (path) of heap object Base
	ACell                   // local cell (+ optional path into struct / array index)
	AIndex                  // element of slice value
	AGlobal                 // package-level variable
	ADeref                  // pointer to a scalar (heap component P|T)
)

type Addr struct {
	Kind  AddrKind
	Base  string      // ref term (AField, ADeref)
	Owner types.Type  // AField: named struct type owning the path
	Path  []int       // field index path
	PathN []string    // field names
	Cell  *ssa.Alloc  // ACell
	CIdx  string      // ACell on array: index term ("" if none)
	Post  []int       // ACell on array of structs: field path AFTER the index (&cell[i].f)
	Sl    *Val        // AIndex
	Idx   string      // AIndex
	Glob  *ssa.Global // AGlobal
	ElemT types.Type  // pointee type
}

type iterState struct {
	kind string // "map" | "string"
	m    string // map ref
	mt   *types.Map
	seen string // (Array K Bool) of keys already visited (name)
}

// Epoch describes the provenance of heap components that were not yet touched
// explicitly in a state.
type Epoch struct {
	id   int
	kind string // base | havoc | merge
	c    string
	a, b *Epoch
}

type State struct {
	ep *Epoch
	H  map[string]string // component key -> term (a defined name)
	C  map[*ssa.Alloc]*Val
}

func (s *State) clone() *State {
	n := &State{ep: s.ep, H: make(map[string]string, len(s.H)), C: make(map[*ssa.Alloc]*Val, len(s.C))}
	for k, v := range s.H {
		n.H[k] = v
	}
	for k, v := range s.C {
		n.C[k] = v
	}
	return n
}

// Comp is a heap component: an SMT array (or scalar for globals) with versions.
type Comp struct {
	Key  string
	Base string // sanitized SMT base name
	Sort string
	Idx  string // index sort ("" for globals)
	Elem string
	byEp map[int]string
}

type refusal struct{ msg string }

func (x *VC) refuse(f string, a ...interface{}) {
	panic(refusal{fmt.Sprintf(f, a...)})
}

// ---- sorts ----------------------------------------------------------------

func (x *VC) intBits(b *types.Basic) (int, bool) { // bits, signed
	switch b.Kind() {
	case types.Int8:
		return 8, true
	case types.Int16:
		return 16, true
	case types.Int32, types.UntypedRune:
		return 32, true
	case types.Int64, types.Int, types.UntypedInt:
		return 64, true
	case types.Uint8:
		return 8, false
	case types.Uint16:
		return 16, false
	case types.Uint32:
		return 32, false
	case types.Uint64, types.Uint, types.Uintptr:
		return 64, false
	}
	return 0, false
}

func isIntType(t types.Type) (*types.Basic, bool) {
	if t == nil {
		return nil, false
	}
	b, ok := t.Underlying().(*types.Basic)
	if !ok {
		return nil, false
	}
	if b.Info()&types.IsInteger != 0 {
		return b, true
	}
	return nil, false
}

// sortOf returns the SMT sort for scalar Go types, "" for composites.
func (x *VC) sortOf(t types.Type) string {
	switch u := t.Underlying().(type) {
	case *types.Basic:
		switch {
		case u.Info()&types.IsBoolean != 0:
			return "Bool"
		case u.Info()&types.IsInteger != 0:
			if x.mode == "bv" {
				n, _ := x.intBits(u)
				return fmt.Sprintf("(_ BitVec %d)", n)
			}
			return "Int"
		case u.Info()&types.IsString != 0:
			return "String"
		case u.Info()&types.IsFloat != 0, u.Info()&types.IsComplex != 0:
			return "Float"
		case u.Kind() == types.UnsafePointer, u.Kind() == types.UntypedNil:
			return "Int"
		}
	case *types.Pointer, *types.Interface, *types.Map, *types.Chan, *types.Signature:
		return "Int"
	case *types.TypeParam:
		x.refuse("generic code")
	}
	return ""
}

// dtStructs: struct types that are modelled as SMT datatypes when they are ELEMENTS of slices/arrays (so that a
// slice of such structs is an array of records, not of opaque handles). Allow-listed: the BSON element type that
// MongoDB filters, sort documents and updates are made of.
var dtStructs = map[string]bool{
	"go.mongodb.org/mongo-driver/bson/primitive.E": true,
}

// dtSort returns the datatype sort of struct type t ("" if t is not modelled as a datatype); declares it on first use.
func (x *VC) dtSort(t types.Type) string {
	n := namedOf(t)
	su, ok := t.Underlying().(*types.Struct)
	if n == nil || !ok || !dtStructs[shortTypeFull(n)] {
		return ""
	}
	name := "DT_" + sanitize(shortTypeFull(n))
	if !x.externs["decl:"+name] {
		var fs []string
		for i := 0; i < su.NumFields(); i++ {
			fsrt := x.sortOf(su.Field(i).Type())
			if fsrt == "" {
				return ""
			}
			fs = append(fs, fmt.Sprintf("(%s_%s %s)", name, su.Field(i).Name(), fsrt))
		}
		x.externs["decl:"+name] = true
		x.emit(fmt.Sprintf("(declare-datatypes ((%s 0)) (((mk_%s %s))))", name, name, strings.Join(fs, " ")))
		if x.dtZero == nil {
			x.dtZero = map[string]string{}
		}
		var zs []string
		for i := 0; i < su.NumFields(); i++ {
			zs = append(zs, x.zero(su.Field(i).Type()).T)
		}
		x.dtZero[name] = "(mk_" + name + " " + strings.Join(zs, " ") + ")"
	}
	return name
}

// elemSortOf: the SMT sort of an element of a slice/array of t ("Int" = opaque handle for unmodelled composites).
func (x *VC) elemSortOf(t types.Type) string {
	if s := x.sortOf(t); s != "" {
		return s
	}
	if s := x.dtSort(t); s != "" {
		return s
	}
	return "Int"
}

// packStruct / unpackStruct convert between a struct value (one Val per field) and a datatype term.
func (x *VC) packStruct(v *Val) string {
	name := x.dtSort(v.GT)
	if name == "" || v.K != KStruct {
		x.refuse("struct value of unmodelled element type %v", v.GT)
	}
	var fs []string
	for _, f := range v.Fs {
		if f.K != KScalar {
			x.refuse("nested composite inside %s", name)
		}
		fs = append(fs, f.T)
	}
	return "(mk_" + name + " " + strings.Join(fs, " ") + ")"
}

func (x *VC) unpackStruct(term string, t types.Type, st *State) *Val {
	name := x.dtSort(t)
	su := t.Underlying().(*types.Struct)
	v := &Val{K: KStruct, GT: t}
	for i := 0; i < su.NumFields(); i++ {
		ft := su.Field(i).Type()
		f := &Val{K: KScalar, T: fmt.Sprintf("(%s_%s %s)", name, su.Field(i).Name(), term), S: x.sortOf(ft), GT: ft}
		v.Fs = append(v.Fs, f)
	}
	return v
}

func (x *VC) idxSort() string {
	if x.mode == "bv" {
		return "(_ BitVec 64)"
	}
	return "Int"
}

func (x *VC) intLit(v *big.Int, t types.Type) string {
	if x.mode == "bv" {
		b, _ := isIntType(t)
		n := 64
		if b != nil {
			n, _ = x.intBits(b)
		}
		m := new(big.Int).Set(v)
		if m.Sign() < 0 {
			mod := new(big.Int).Lsh(big.NewInt(1), uint(n))
			m.Add(m, mod)
		}
		return fmt.Sprintf("(_ bv%s %d)", m.String(), n)
	}
	if v.Sign() < 0 {
		return "(- " + new(big.Int).Neg(v).String() + ")"
	}
	return v.String()
}

func (x *VC) intLit64(v int64, t types.Type) string { return x.intLit(big.NewInt(v), t) }

var tInt = types.Typ[types.Int]

// idx literal in the index sort
func (x *VC) ilit(v int64) string { return x.intLit64(v, tInt) }

func (x *VC) typeRange(term string, t types.Type) string {
	if x.mode == "bv" {
		return "true"
	}
	b, ok := isIntType(t)
	if !ok {
		return "true"
	}
	n, signed := x.intBits(b)
	if n == 0 {
		return "true"
	}
	if signed {
		lo := new(big.Int).Neg(new(big.Int).Lsh(big.NewInt(1), uint(n-1)))
		hi := new(big.Int).Sub(new(big.Int).Lsh(big.NewInt(1), uint(n-1)), big.NewInt(1))
		return fmt.Sprintf("(and (<= %s %s) (<= %s %s))", x.intLit(lo, t), term, term, hi.String())
	}
	hi := new(big.Int).Sub(new(big.Int).Lsh(big.NewInt(1), uint(n)), big.NewInt(1))
	return fmt.Sprintf("(and (<= 0 %s) (<= %s %s))", term, term, hi.String())
}

// ---- naming ---------------------------------------------------------------

func (x *VC) freshName(hint string) string {
	x.n++
	return fmt.Sprintf("%s!%d", sanitize(hint), x.n)
}

func (x *VC) emit(line string) { x.script = append(x.script, line) }

// define introduces a name for a term (unless naming is disabled inside quantifier bodies).
func (x *VC) define(hint, sort, term string) string {
	if x.noName > 0 || sort == "" {
		return term
	}
	if len(term) < 24 && !strings.HasPrefix(term, "(ite") { // small terms stay inline
		return term
	}
	n := x.freshName(hint)
	x.emit(fmt.Sprintf("(define-fun %s () %s %s)", n, sort, term))
	x.defs[n] = term
	return n
}

// resolveDef expands a defined name one level.
func (x *VC) resolveDef(t string) string {
	for {
		d, ok := x.defs[t]
		if !ok {
			return t
		}
		t = d
	}
}

func (x *VC) declare(hint, sort string) string {
	if x.noName > 0 {
		x.refuse("fresh constant %s needed inside a quantified specification", hint)
	}
	n := x.freshName(hint)
	x.emit(fmt.Sprintf("(declare-fun %s () %s)", n, sort))
	return n
}

// assume adds a path assumption (guarded by the reach condition of the code it follows).
// Never emitted while a specification is being evaluated: there the guard would not include
// the reach condition of the obligation the specification belongs to.
func (x *VC) assume(guard, cond string) {
	if cond == "true" || x.noName > 0 {
		return
	}
	x.emit("(assert " + sImp(guard, cond) + ")")
}

// fact adds a universally valid type fact (ranges of machine integers, dynamic types of
// typed references, allocation of stored references). Facts mentioning bound variables of a
// quantified specification are dropped.
func (x *VC) fact(cond string) {
	if cond == "true" {
		return
	}
	if x.noName > 0 && strings.Contains(cond, "qv$") {
		return
	}
	x.emit("(assert " + cond + ")")
}

// ---- scalar / composite constructors ---------------------------------------

func (x *VC) scalar(term string, t types.Type) *Val {
	return &Val{K: KScalar, T: term, S: x.sortOf(t), GT: t}
}

func bval(term string) *Val { return &Val{K: KScalar, T: term, S: "Bool", GT: types.Typ[types.Bool]} }

func (x *VC) zero(t types.Type) *Val {
	switch u := t.Underlying().(type) {
	case *types.Basic:
		switch {
		case u.Info()&types.IsBoolean != 0:
			return x.scalar("false", t)
		case u.Info()&types.IsInteger != 0:
			return x.scalar(x.intLit64(0, t), t)
		case u.Info()&types.IsString != 0:
			return x.scalar(`""`, t)
		case u.Info()&types.IsFloat != 0:
			return x.scalar("fzero", t)
		}
		return x.scalar("0", t)
	case *types.Slice:
		es := x.elemSortOf(u.Elem()) // slices of unmodelled composites: elements are opaque handles
		return &Val{K: KSlice, Arr: x.constArray(es), Off: x.ilit(0), Len: x.ilit(0), ES: es, GT: t}
	case *types.Struct:
		v := &Val{K: KStruct, GT: t}
		for i := 0; i < u.NumFields(); i++ {
			v.Fs = append(v.Fs, x.zero(u.Field(i).Type()))
		}
		return v
	case *types.Array:
		es := x.elemSortOf(u.Elem())
		return &Val{K: KSlice, Arr: x.constArray(es), Off: x.ilit(0), Len: x.ilit(u.Len()), ES: es, GT: t}
	case *types.Tuple:
		v := &Val{K: KStruct, GT: t}
		for i := 0; i < u.Len(); i++ {
			v.Fs = append(v.Fs, x.zero(u.At(i).Type()))
		}
		return v
	}
	return x.scalar("0", t)
}

func (x *VC) zeroOfSort(s string) string {
	switch {
	case s == "Int":
		return "0"
	case s == "Bool":
		return "false"
	case s == "String":
		return `""`
	case s == "Float":
		return "fzero"
	case s == "Real":
		return "0.0"
	case strings.HasPrefix(s, "(_ BitVec "):
		var n int
		fmt.Sscanf(s, "(_ BitVec %d)", &n)
		return fmt.Sprintf("(_ bv0 %d)", n)
	case strings.HasPrefix(s, "(Array "):
		idx, el := splitArraySort(s)
		return fmt.Sprintf("((as const (Array %s %s)) %s)", idx, el, x.zeroOfSort(el))
	}
	if z, ok := x.dtZero[s]; ok {
		return z
	}
	return "0"
}

func splitArraySort(s string) (string, string) {
	inner := strings.TrimSuffix(strings.TrimPrefix(s, "(Array "), ")")
	// first sort
	d := 0
	for i, c := range inner {
		switch c {
		case '(':
			d++
		case ')':
			d--
		case ' ':
			if d == 0 {
				return inner[:i], inner[i+1:]
			}
		}
	}
	return inner, ""
}

func (x *VC) constArray(es string) string {
	return fmt.Sprintf("((as const (Array %s %s)) %s)", x.idxSort(), es, x.zeroOfSort(es))
}

// fresh creates an unconstrained value of Go type t (with type facts assumed).
func (x *VC) fresh(t types.Type, hint string, guard string, st *State) *Val {
	switch u := t.Underlying().(type) {
	case *types.Slice:
		es := x.elemSortOf(u.Elem())
		v := &Val{K: KSlice, ES: es, GT: t}
		v.Arr = x.declare(hint+"_arr", fmt.Sprintf("(Array %s %s)", x.idxSort(), es))
		v.Off = x.ilit(0)
		v.Len = x.declare(hint+"_len", x.idxSort())
		x.assume("true", x.cmpS("<=", x.ilit(0), v.Len))
		if x.mode == "math" {
			x.assume("true", "(<= "+v.Len+" 4611686018427387904)")
		}
		return v
	case *types.Struct:
		v := &Val{K: KStruct, GT: t}
		for i := 0; i < u.NumFields(); i++ {
			v.Fs = append(v.Fs, x.fresh(u.Field(i).Type(), hint+"_"+u.Field(i).Name(), guard, st))
		}
		return v
	case *types.Tuple:
		v := &Val{K: KStruct, GT: t}
		for i := 0; i < u.Len(); i++ {
			v.Fs = append(v.Fs, x.fresh(u.At(i).Type(), fmt.Sprintf("%s_%d", hint, i), guard, st))
		}
		return v
	case *types.Array:
		// an array value: unconstrained elements, fixed length
		es := x.elemSortOf(u.Elem())
		v := &Val{K: KSlice, ES: es, GT: t}
		v.Arr = x.declare(hint+"_arr", fmt.Sprintf("(Array %s %s)", x.idxSort(), es))
		v.Off = x.ilit(0)
		v.Len = x.ilit(u.Len())
		return v
	}
	s := x.sortOf(t)
	n := x.declare(hint, s)
	v := &Val{K: KScalar, T: n, S: s, GT: t}
	x.typeFacts(v, st)
	return v
}

// typeFacts assumes the facts every well-typed value satisfies.
func (x *VC) typeFacts(v *Val, st *State) {
	if v.K != KScalar || v.GT == nil {
		return
	}
	if _, ok := isIntType(v.GT); ok {
		x.fact(x.typeRange(v.T, v.GT))
		return
	}
	if st != nil {
		x.allocatedFact(v, st)
	}
	switch u := v.GT.Underlying().(type) {
	case *types.Pointer:
		if _, isStruct := u.Elem().Underlying().(*types.Struct); isStruct {
			x.fact(sOr(sEq(v.T, "0"), sEq("(dtype "+v.T+")", x.tag(v.GT))))
		}
		x.fact("(>= " + v.T + " 0)")
	case *types.Interface:
		x.fact("(>= " + v.T + " 0)")
		if tags := x.eng.implTags(x, v.GT); tags != nil {
			alts := []string{sEq(v.T, "0")}
			for _, tg := range tags {
				alts = append(alts, sEq("(dtype "+v.T+")", tg))
			}
			x.fact(sOr(alts...))
		}
	case *types.Map, *types.Chan, *types.Signature:
		x.fact("(>= " + v.T + " 0)")
	}
}

// ---- type tags ------------------------------------------------------------

func shortType(t types.Type) string {
	return types.TypeString(t, func(p *types.Package) string { return p.Name() })
}

func (x *VC) tag(t types.Type) string {
	return fmt.Sprintf("%d", x.eng.tagOf(shortTypeFull(t)))
}

func shortTypeFull(t types.Type) string {
	return types.TypeString(t, func(p *types.Package) string { return p.Path() })
}

func (e *Engine) tagOf(s string) int {
	e.mu.Lock()
	defer e.mu.Unlock()
	if n, ok := e.tags[s]; ok {
		return n
	}
	n := len(e.tags) + 1
	e.tags[s] = n
	e.tagNames[n] = s
	return n
}

// ---- components -----------------------------------------------------------

func (x *VC) comp(key, idxSort, elemSort string) *Comp {
	if c, ok := x.comps[key]; ok {
		return c
	}
	c := &Comp{Key: key, Base: "H_" + sanitize(key), Idx: idxSort, Elem: elemSort, byEp: map[int]string{}}
	if idxSort == "" {
		c.Sort = elemSort
	} else {
		c.Sort = fmt.Sprintf("(Array %s %s)", idxSort, elemSort)
	}
	x.comps[key] = c
	x.compOrder = append(x.compOrder, key)
	return c
}

func (x *VC) immutableComp(key string) bool {
	return x.eng.db.Immutable[key]
}

// ghostComp reports components that exist only in specifications (ghost globals, spawn and
// channel-send counters, ghost fields): real code reached through `modifies *` cannot change them.
func (x *VC) ghostKey(key string) bool {
	if strings.HasPrefix(key, "G|spawned:") || key == "G|chan.sent" || key == "G|chan.recvs" || key == "G|chan.lastRecv" {
		return true
	}
	if strings.HasPrefix(key, "G|") {
		for _, g := range x.eng.db.Ghosts {
			if g.Type == "G" && "G|"+g.Field == key {
				return true
			}
		}
		return false
	}
	if strings.HasPrefix(key, "F|") {
		if i := strings.LastIndex(key, "|"); i >= 0 && strings.HasPrefix(key[i+1:], "$") {
			return true
		}
	}
	return false
}

func (x *VC) epochName(c *Comp, ep *Epoch) string {
	if n, ok := c.byEp[ep.id]; ok {
		return n
	}
	if (x.immutableComp(c.Key) || x.ghostKey(c.Key)) && ep.id != 0 {
		// immutable fields look the same in every epoch (stores into fresh objects are explicit versions)
		n := x.epochName(c, &Epoch{id: 0, kind: "base"})
		c.byEp[ep.id] = n
		return n
	}
	var n string
	switch ep.kind {
	case "merge":
		a := x.epochName(c, ep.a)
		b := x.epochName(c, ep.b)
		if a == b {
			n = a
		} else {
			n = fmt.Sprintf("%s@e%d", c.Base, ep.id)
			n = "|" + n + "|"
			x.emit(fmt.Sprintf("(define-fun %s () %s (ite %s %s %s))", n, c.Sort, ep.c, a, b))
		}
	default:
		n = fmt.Sprintf("|%s@e%d|", c.Base, ep.id)
		x.emit(fmt.Sprintf("(declare-fun %s () %s)", n, c.Sort))
		if c.Key == "alloc" && ep.kind == "havoc" && ep.a != nil {
			// allocation is monotone across havoc
			prev := x.epochName(c, ep.a)
			x.emit(fmt.Sprintf("(assert (forall ((r Int)) (! (=> (select %s r) (select %s r)) :pattern ((select %s r)))))", prev, n, n))
		}
	}
	c.byEp[ep.id] = n
	return n
}

func (x *VC) newEpoch(kind string, prev *Epoch) *Epoch {
	x.epN++
	return &Epoch{id: x.epN, kind: kind, a: prev}
}

func (x *VC) get(st *State, c *Comp) string {
	if t, ok := st.H[c.Key]; ok {
		return t
	}
	return x.epochName(c, st.ep)
}

func (x *VC) set(st *State, c *Comp, term string) {
	st.H[c.Key] = x.define(c.Base, c.Sort, term)
	if x.writeLog != nil {
		x.writeLog[c.Key] = true
	}
}

// havocComp replaces one component by a fresh version.
func (x *VC) havocComp(st *State, c *Comp) {
	if x.immutableComp(c.Key) {
		return
	}
	prev := x.get(st, c)
	n := x.declare(c.Base+"_hv", c.Sort)
	st.H[c.Key] = n
	if c.Key == "alloc" {
		x.emit(fmt.Sprintf("(assert (forall ((r Int)) (! (=> (select %s r) (select %s r)) :pattern ((select %s r)))))", prev, n, n))
	}
}

// mergeStates builds ite(c, a, b).
func (x *VC) mergeStates(c string, a, b *State) *State {
	if a == b {
		return a
	}
	n := &State{H: map[string]string{}, C: map[*ssa.Alloc]*Val{}}
	if a.ep == b.ep {
		n.ep = a.ep
	} else {
		x.epN++
		n.ep = &Epoch{id: x.epN, kind: "merge", c: c, a: a.ep, b: b.ep}
	}
	keys := map[string]bool{}
	for k := range a.H {
		keys[k] = true
	}
	for k := range b.H {
		keys[k] = true
	}
	ks := make([]string, 0, len(keys))
	for k := range keys {
		ks = append(ks, k)
	}
	sort.Strings(ks)
	for _, k := range ks {
		cp := x.comps[k]
		ta := x.get(a, cp)
		tb := x.get(b, cp)
		if ta == tb {
			n.H[k] = ta
		} else {
			n.H[k] = x.define(cp.Base, cp.Sort, sIte(c, ta, tb))
		}
	}
	for k, va := range a.C {
		if vb, ok := b.C[k]; ok {
			n.C[k] = x.mergeVals(c, va, vb)
		} else {
			n.C[k] = va
		}
	}
	for k, vb := range b.C {
		if _, ok := a.C[k]; !ok {
			n.C[k] = vb
		}
	}
	return n
}

func (x *VC) mergeVals(c string, a, b *Val) *Val {
	if a == b {
		return a
	}
	if a == nil {
		return b
	}
	if b == nil {
		return a
	}
	if a.K != b.K {
		if a.K == KUnit {
			return b
		}
		if b.K == KUnit {
			return a
		}
		x.refuse("merge of values of different shape (%d vs %d)", a.K, b.K)
	}
	switch a.K {
	case KScalar:
		if a.T == b.T {
			return a
		}
		v := &Val{K: KScalar, S: a.S, GT: a.GT}
		v.T = x.define("m", a.S, sIte(c, a.T, b.T))
		return v
	case KSlice:
		v := &Val{K: KSlice, ES: a.ES, GT: a.GT}
		as := fmt.Sprintf("(Array %s %s)", x.idxSort(), a.ES)
		v.Arr = x.define("marr", as, sIte(c, a.Arr, b.Arr))
		v.Off = x.define("moff", x.idxSort(), sIte(c, a.Off, b.Off))
		v.Len = x.define("mlen", x.idxSort(), sIte(c, a.Len, b.Len))
		return v
	case KStruct:
		if len(a.Fs) != len(b.Fs) {
			x.refuse("merge of tuples of different arity")
		}
		v := &Val{K: KStruct, GT: a.GT}
		for i := range a.Fs {
			v.Fs = append(v.Fs, x.mergeVals(c, a.Fs[i], b.Fs[i]))
		}
		return v
	case KUnit:
		return a
	case KAddr:
		if a.A.Kind == b.A.Kind && a.A.Kind == AField && sameAddrShape(a.A, b.A) {
			na := *a.A
			na.Base = x.define("mbase", "Int", sIte(c, a.A.Base, b.A.Base))
			return &Val{K: KAddr, A: &na, GT: a.GT}
		}
		if a.A.Kind == ACell && b.A.Kind == ACell && a.A.Cell == b.A.Cell && a.A.CIdx == b.A.CIdx {
			return a
		}
		x.refuse("merge of distinct interior addresses")
	case KClosure:
		if a.Fn == b.Fn {
			return a
		}
		x.refuse("merge of distinct closures")
	case KIter:
		return a
	}
	return a
}

func sameAddrShape(a, b *Addr) bool {
	if len(a.Path) != len(b.Path) || !types.Identical(a.Owner, b.Owner) {
		return false
	}
	for i := range a.Path {
		if a.Path[i] != b.Path[i] {
			return false
		}
	}
	return true
}
