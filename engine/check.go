package main

// `govc check --property Cnn --tier quick|thorough`: regenerate every obligation of
// the property from /repo's working tree, discharge, replay failures, write evidence.

import (
	"encoding/json"

	"fmt"
	"golang.org/x/tools/go/ssa"
	"os"
	"path/filepath"
	"regexp"
	"sort"
	"strconv"
	"strings"
	"sync"
	"time"
)

type Finding struct {
	Kind       string // finding | fixed
	Property   string
	Obligation string // name with optional trailing *
	Text       string
}

func loadFindings() []Finding {
	data, err := os.ReadFile(filepath.Join(verifRoot, "known_findings.txt"))
	if err != nil {
		return nil
	}
	var out []Finding
	re := regexp.MustCompile(`^(finding|fixed):\s+property=(\S+)\s+(?:(\S+)\s+)?obligation=(\S+)\s*(?:—|--)?\s*(.*)$`)
	for _, l := range strings.Split(string(data), "\n") {
		l = strings.TrimSpace(l)
		if l == "" || strings.HasPrefix(l, "#") {
			continue
		}
		m := re.FindStringSubmatch(l)
		if m == nil {
			continue
		}
		out = append(out, Finding{Kind: m[1], Property: m[2], Obligation: m[4], Text: m[5]})
	}
	return out
}

var ctrRe = regexp.MustCompile(`#\d+$`)

func baseName(n string) string { return ctrRe.ReplaceAllString(n, "") }

func (f Finding) matches(prop, obl string) bool {
	if f.Kind != "finding" || f.Property != prop {
		return false
	}
	b := baseName(obl)
	if strings.HasSuffix(f.Obligation, "*") {
		return strings.HasPrefix(b, strings.TrimSuffix(f.Obligation, "*"))
	}
	return b == f.Obligation || obl == f.Obligation
}

type sample struct {
	Obligation string `json:"obligation"`
	Kind       string `json:"kind"`
	Pos        string `json:"pos"`
	Encoding   string `json:"ints"`
	Backend    string `json:"backend"`
	Ms         int64  `json:"ms"`
	Status     string `json:"status"`
}

func cmdCheck(prop, tier string) int {
	t0 := time.Now()
	seed := 0
	if s := os.Getenv("VERIF_SEED"); s != "" {
		seed, _ = strconv.Atoi(s)
	}
	toSec := 10
	wantAll := false
	if tier == "thorough" {
		toSec = 60
		wantAll = true
	}
	db, overlay, err := loadSpecs()
	if err != nil {
		fmt.Println("ENGINE-ERROR: specification files:", err)
		return 2
	}
	byMod := map[string][]*Contract{}
	boundedBy := map[string][]*Contract{} // harness -> functions it stands in for (this property)
	for _, c := range db.Contracts {
		if c.Extern || (c.Trusted != "" && len(c.Checks) == 0 && !c.hasStructural()) {
			continue
		}
		has := false
		for _, p := range c.Props {
			if p == prop {
				has = true
			}
		}
		if !has {
			continue
		}
		if c.Bounded != "" {
			boundedBy[c.Bounded] = append(boundedBy[c.Bounded], c)
			continue
		}
		m := moduleOf(c.Pkg)
		if m == "" {
			continue
		}
		byMod[m] = append(byMod[m], c)
	}
	var pureLemmas []*Lemma
	for _, lm := range db.Lemmas {
		if lm.Axiom {
			continue
		}
		for _, p := range lm.Props {
			if p == prop {
				pureLemmas = append(pureLemmas, lm)
			}
		}
	}
	sort.Slice(pureLemmas, func(i, j int) bool { return pureLemmas[i].Name < pureLemmas[j].Name })
	if len(pureLemmas) > 0 {
		// lemmas are pure; they are checked with whichever module holds their package
		for _, lm := range pureLemmas {
			m := moduleOf(lm.Pkg + "/")
			if m == "" {
				m = filepath.Join(repoRoot, "client")
			}
			if _, ok := byMod[m]; !ok {
				byMod[m] = nil
			}
		}
	}
	for h := range boundedBy {
		// the module of a bounded function is loaded too, so that a renamed or removed function is noticed
		if m := moduleOf(boundedBy[h][0].Pkg); m != "" {
			if _, ok := byMod[m]; !ok {
				byMod[m] = nil
			}
		}
	}
	if len(byMod) == 0 {
		fmt.Printf("ENGINE-ERROR: no contract carries property %s\n", prop)
		return 2
	}
	var frs []*FuncResult
	var frMu sync.Mutex
	var wg sync.WaitGroup
	var loadErr error
	var missing []string
	// bounded stand-ins run beside the proof work (they execute the real code with `go test -overlay`)
	var bres []*boundedResult
	var bwg sync.WaitGroup
	var hnames []string
	for h := range boundedBy {
		hnames = append(hnames, h)
	}
	sort.Strings(hnames)
	for _, h := range hnames {
		h := h
		r := &boundedResult{Harness: h}
		for _, c := range boundedBy[h] {
			r.Functions = append(r.Functions, c.Pkg+"::"+c.Name)
			r.Why = c.BoundedWhy
		}
		sort.Strings(r.Functions)
		bres = append(bres, r)
		bwg.Add(1)
		go func() {
			defer bwg.Done()
			runBounded(r, boundedBy[h][0].Pkg, tier)
		}()
	}
	mods := make([]string, 0, len(byMod))
	for m := range byMod {
		mods = append(mods, m)
	}
	sort.Strings(mods)
	for _, mod := range mods {
		mod := mod
		cs := byMod[mod]
		wg.Add(1)
		go func() {
			defer wg.Done()
			pkgs := map[string]bool{}
			for _, c := range cs {
				pkgs[c.Pkg] = true
			}
			pats := []string{"./..."}
			eng, err := loadEngine(mod, pats, overlay, db)
			if err != nil {
				frMu.Lock()
				loadErr = err
				frMu.Unlock()
				return
			}
			sort.Slice(cs, func(i, j int) bool { return cs[i].Pkg+cs[i].Name < cs[j].Pkg+cs[j].Name })
			var local []*FuncResult
			for _, h := range hnames {
				for _, c := range boundedBy[h] {
					if moduleOf(c.Pkg) == mod && len(eng.targets(c)) == 0 {
						frMu.Lock()
						missing = append(missing, c.Pkg+"::"+c.Name)
						frMu.Unlock()
					}
				}
			}
			for _, lm := range pureLemmas {
				lmod := moduleOf(lm.Pkg + "/")
				if lmod == "" {
					lmod = filepath.Join(repoRoot, "client")
				}
				if lmod != mod {
					continue
				}
				var anyFn *ssa.Function
				for _, f := range eng.fnIndex {
					if f.Pkg != nil && f.Pkg.Pkg.Path() == lm.Pkg {
						anyFn = f
						break
					}
				}
				if anyFn == nil {
					for _, f := range eng.fnIndex {
						anyFn = f
						break
					}
				}
				local = append(local, eng.verifyLemma(lm, anyFn))
			}
			var lwg sync.WaitGroup
			var lmu sync.Mutex
			sem := make(chan struct{}, 8)
			for _, c := range cs {
				fns := eng.targets(c)
				if len(fns) == 0 {
					lmu.Lock()
					missing = append(missing, c.Pkg+"::"+c.Name)
					lmu.Unlock()
					continue
				}
				for _, fn := range fns {
					fn := fn
					c := c
					lwg.Add(1)
					sem <- struct{}{}
					go func() {
						defer lwg.Done()
						defer func() { <-sem }()
						fr := eng.verifyFunc(fn, c)
						lmu.Lock()
						local = append(local, fr)
						lmu.Unlock()
					}()
				}
			}
			lwg.Wait()
			frMu.Lock()
			frs = append(frs, local...)
			frMu.Unlock()
		}()
	}
	wg.Wait()
	if loadErr != nil {
		fmt.Println("ENGINE-ERROR: cannot load /repo:", loadErr)
		return 2
	}
	sort.Slice(frs, func(i, j int) bool { return frs[i].Key < frs[j].Key })
	genSecs := time.Since(t0).Seconds()
	dischargeAll(frs, toSec, 8, wantAll)

	findings := loadFindings()
	baseline := loadBaseline(prop)
	if os.Getenv("GOVC_REBASELINE") == "1" {
		baseline = nil // an explicit re-baseline: the previous list does not apply
	}
	replayDir := filepath.Join(outRoot, "replays", prop)
	_ = os.MkdirAll(replayDir, 0o755)

	var (
		nObl, nDis                 int
		coversRun, coversOK        int
		violations, known          int
		engineBad                  []string
		samples                    []sample
		funcs                      []map[string]interface{}
		refused                    []string
		externs                    = map[string]bool{}
		assumptions                = map[string]bool{}
		lemmas                     []string
		knownLines, violationLines []string
		seenNames                  = map[string]bool{}
		disagree                   []string
	)
	type failure struct {
		fr   *FuncResult
		o    *Oblig
		why  string
		name string
	}
	var failures []failure
	bwg.Wait()
	var boundedCov []map[string]interface{}
	for _, r := range bres {
		boundedCov = append(boundedCov, r.coverage())
		for i, fl := range r.Fails {
			failures = append(failures, failure{nil, nil, "BOUNDED:" + fl + "\n\nharness: " + r.File + "\nrerun: " + r.Cmd, fmt.Sprintf("bounded[%s]/failing-history-%d", r.Harness, i+1)})
		}
		if r.Err != "" {
			failures = append(failures, failure{nil, nil, "bounded harness did not complete: " + r.Err, fmt.Sprintf("bounded[%s]/harness-did-not-complete", r.Harness)})
		}
		assumptions[fmt.Sprintf("BOUNDED (not proved): %s stand in for %s — %s", r.describe(), strings.Join(r.Functions, ", "), r.Why)] = true
	}
	for _, m := range missing {
		// contract for a function that no longer exists
		failures = append(failures, failure{nil, nil, "function under contract not found in /repo (renamed or removed)", m + "/contract-target"})
	}
	for _, fr := range frs {
		fo, fd := 0, 0
		for _, o := range fr.Obls {
			seenNames[baseName(o.Name)] = true
			if o.Expect == "sat" {
				coversRun++
				if o.ok() {
					coversOK++
				} else if o.Result.Status == "unsat" && o.Kind == "cover:after-call" && (o.Before == nil || o.Before.Result.Status != "sat") {
					// the call site is unreachable under the contract already before the call: dead code, not vacuity
				} else if o.Result.Status == "unsat" && o.Kind == "cover:before-call" {
					// dead code under the contract
				} else if o.Result.Status == "unsat" {
					engineBad = append(engineBad, fmt.Sprintf("vacuity: %s is unsatisfiable (the assumptions collected up to %s contradict each other)", o.Name, o.Pos))
				}
				continue
			}
			nObl++
			fo++
			if wantAll {
				var sawSat, sawUnsat bool
				for _, r := range o.All {
					if r.Status == "sat" {
						sawSat = true
					}
					if r.Status == "unsat" {
						sawUnsat = true
					}
				}
				if sawSat && sawUnsat {
					disagree = append(disagree, o.Name)
				}
			}
			if o.ok() {
				nDis++
				fd++
				if len(samples) < 14 && (o.Kind == "ensures" || strings.Contains(o.Kind, "invariant") || len(samples) < 4) {
					samples = append(samples, sample{o.Name, o.Kind, o.Pos, fr.Mode, o.Result.Backend, o.Result.Ms, o.Result.Status})
				}
				continue
			}
			failures = append(failures, failure{fr, o, "", o.Name})
		}
		if fr.Refused != "" {
			refused = append(refused, fr.Key+": "+fr.Refused)
			failures = append(failures, failure{fr, nil, "function moved outside the engine's subset: " + fr.Refused, fr.Key + "/refused"})
		}
		for _, e := range fr.Externs {
			externs[e] = true
		}
		for _, n := range fr.Notes {
			assumptions[n] = true
		}
		if fr.Contract != nil && fr.Contract.NoOvf != "" {
			assumptions[fmt.Sprintf("%s: machine arithmetic treated as mathematical without overflow obligations (%s)", fr.Key, fr.Contract.NoOvf)] = true
		}
		if fr.IsLemma {
			lemmas = append(lemmas, fr.Key)
		}
		funcs = append(funcs, map[string]interface{}{"function": fr.Key, "ints": fr.Mode, "obligations": fo, "discharged": fd,
			"calls_by_contract": fr.CallsBy, "inlined": fr.Inlined, "lemma": fr.IsLemma, "ssa_instructions": fr.NumInstrs})
	}
	// obligations that existed (discharged) at the baseline but were not generated now
	for _, b := range baseline {
		if !seenNames[b] {
			already := false
			for _, f := range failures {
				if f.fr != nil && strings.HasPrefix(b, f.fr.Key+"/") && f.o == nil {
					already = true
				}
			}
			if !already {
				failures = append(failures, failure{nil, nil, "obligation discharged at the baseline is no longer generated", b})
			}
		}
	}
	for _, f := range failures {
		isKnown := false
		for _, kf := range findings {
			if kf.matches(prop, f.name) {
				isKnown = true
				line := fmt.Sprintf("KNOWN-FINDING: property=%s %s — %s", prop, baseName(f.name), kf.Text)
				dup := false
				for _, l := range knownLines {
					if l == line {
						dup = true
					}
				}
				if !dup {
					knownLines = append(knownLines, line)
				}
				break
			}
		}
		if isKnown {
			known++
			if f.o != nil {
				nObl-- // a known finding is reported separately (undischarged_known), not among the proof obligations
			}
			continue
		}
		violations++
		rp := filepath.Join(replayDir, sanitize(f.name)+".json")
		rec := map[string]interface{}{"property": prop, "obligation": f.name}
		suffix := " no-failing-input-found"
		if f.o != nil {
			rec["kind"] = f.o.Kind
			rec["position"] = f.o.Pos
			rec["solver_status"] = f.o.Result.Status
			rec["backend"] = f.o.Result.Backend
			rec["solver_output"] = truncate(f.o.Result.Raw, 4000)
			rec["clause"] = f.o.Note
			if f.o.Result.Status == "sat" {
				mv := map[string]string{}
				for k, v := range f.o.Result.Model {
					lbl := f.fr.VC.modelLbl[k]
					if lbl == "" {
						lbl = k
					}
					mv[lbl] = v
				}
				// a smaller counterexample for replay, if the contract gives replay bounds
				if len(f.fr.VC.replayBounds) > 0 && f.o.Script != "" {
					sc := f.o.Script
					for _, b := range f.fr.VC.replayBounds {
						sc += "(assert " + b + ")\n"
					}
					if r2, _ := runSolvers(sc, f.fr.VC.modelVals, 10, false); r2.Status == "sat" {
						mv = map[string]string{}
						for k, v := range r2.Model {
							lbl := f.fr.VC.modelLbl[k]
							if lbl == "" {
								lbl = k
							}
							mv[lbl] = v
						}
					}
				}
				rec["model"] = mv
				if ok, out, test := tryReplayMaybe(f.fr, f.o, mv); test != "" {
					rec["replay_test"] = test
					rec["replay_output"] = truncate(out, 4000)
					rec["reproduced_on_real_code"] = ok
					if ok {
						suffix = ""
					}
				}
			}
			if f.o.Result.Status != "sat" && f.o.Script != "" && replayTemplateExists(f.fr) {
				// no model because of quantified background axioms: search a CANDIDATE input on the script with
				// every quantified assertion dropped (fewer constraints, so the candidate may be spurious: it only
				// counts if the replay reproduces the failure on the real code)
				cand := dropQuantified(f.o.Script)
				for _, b := range f.fr.VC.replayBounds {
					cand += "(assert " + b + ")\n"
				}
				if r2, _ := runSolvers(cand, f.fr.VC.modelVals, 10, false); r2.Status == "sat" {
					mv := map[string]string{}
					for k, v := range r2.Model {
						lbl := f.fr.VC.modelLbl[k]
						if lbl == "" {
							lbl = k
						}
						mv[lbl] = v
					}
					if ok, out, test := tryReplayMaybe(f.fr, f.o, mv); test != "" && ok {
						rec["model"] = mv
						rec["model_kind"] = "candidate from the quantifier-free part of the obligation, confirmed by replay"
						rec["replay_test"] = test
						rec["replay_output"] = truncate(out, 4000)
						rec["reproduced_on_real_code"] = true
						suffix = ""
					}
				}
			}
			if f.o.Result.Status != "sat" && suffix != "" {
				// no model (quantified goal): the replay template runs its own small enumeration
				if ok, out, test := tryReplayMaybe(f.fr, f.o, map[string]string{}); test != "" {
					rec["replay_test"] = test
					rec["replay_output"] = truncate(out, 4000)
					rec["reproduced_on_real_code"] = ok
					rec["replay_kind"] = "enumeration by the replay template (the solver gave no model)"
					if ok {
						suffix = ""
					}
				}
			}
			sp := filepath.Join(replayDir, sanitize(f.name)+".smt2")
			if f.o.Script != "" {
				_ = os.WriteFile(sp, []byte(f.o.Script+"(check-sat)\n"), 0o644)
				rec["smt2"] = sp
			}
		} else if strings.HasPrefix(f.why, "BOUNDED:") {
			// a failing history of a bounded stand-in IS a failing input, executed on the real code
			rec["reason"] = "bounded stand-in: the real code violates the property on this history"
			rec["failing_history"] = strings.TrimPrefix(f.why, "BOUNDED:")
			rec["reproduced_on_real_code"] = true
			suffix = ""
		} else {
			rec["reason"] = f.why
		}
		if suffix != "" {
			rec["note"] = "no-failing-input-found: the obligation is not discharged on this tree; no concrete failing input was confirmed on the real code"
		}
		data, _ := json.MarshalIndent(rec, "", " ")
		_ = os.WriteFile(rp, data, 0o644)
		violationLines = append(violationLines, fmt.Sprintf("VIOLATION property=%s replay=%s%s", prop, rp, suffix))
	}
	for _, l := range knownLines {
		fmt.Println(l)
	}
	for _, l := range violationLines {
		fmt.Println(l)
	}
	// evidence
	var exts, assum []string
	for e := range externs {
		exts = append(exts, e)
	}
	sort.Strings(exts)
	for a := range assumptions {
		assum = append(assum, a)
	}
	sort.Strings(assum)
	assum = append(assum, standingAssumptions...)
	for _, e := range exts {
		assum = append(assum, "assumed: "+e)
	}
	st := map[string]float64{}
	solverTimeMu.Lock()
	for k, v := range solverTime {
		st[k] = float64(int(v*100)) / 100
	}
	solverTimeMu.Unlock()
	byBackend := map[string]int{}
	for _, fr := range frs {
		for _, o := range fr.Obls {
			if o.Expect != "sat" && o.ok() {
				byBackend[o.Result.Backend]++
			}
		}
	}
	var scan []string
	for _, s := range db.Scan {
		scan = append(scan, s)
	}
	sort.Strings(scan)
	// obligations that needed more than 2 s or a retry round: candidates for false alarms on a slower machine
	var slow []map[string]interface{}
	for _, fr := range frs {
		for _, o := range fr.Obls {
			if o.Expect != "sat" && o.ok() && (o.Result.Ms > 2000 || o.Retried > 0) {
				slow = append(slow, map[string]interface{}{"obligation": o.Name, "ms": o.Result.Ms, "backend": o.Result.Backend, "retry_round_multiplier": o.Retried})
				fmt.Printf("SLOW %s: %d ms on %s (retry x%d)\n", o.Name, o.Result.Ms, o.Result.Backend, o.Retried)
			}
		}
	}
	cov := map[string]interface{}{
		"slow_obligations":         slow,
		"obligations":              nObl,
		"discharged":               nDis,
		"checker_cmd":              fmt.Sprintf("/verif/bin/govc check --property %s --tier %s", prop, tier),
		"trusted_base":             trustedBase,
		"samples":                  samples,
		"functions_under_contract": funcs,
		"functions_refused":        refused,
		"lemmas":                   lemmas,
		"discharged_by_backend":    byBackend,
		"solver_time_s":            st,
		"vc_generation_s":          float64(int(genSecs*100)) / 100,
		"externs_assumed":          exts,
		"assumption_scan":          scan,
		"vacuity":                  map[string]int{"cover_queries_run": coversRun, "cover_queries_satisfiable": coversOK},
		"known_findings":           knownLines,
		"undischarged_known":       known,
		"solver_disagreements":     disagree,
		"bounded":                  boundedCov,
		"exhaustive":               false,
	}
	ev := map[string]interface{}{
		"property_id": prop,
		"tier":        tier,
		"seed":        seed,
		"level":       "proof",
		"coverage":    cov,
		"assumptions": assum,
		"wall_s":      float64(int(time.Since(t0).Seconds()*100)) / 100,
		"violations":  violations,
	}
	_ = os.MkdirAll(filepath.Join(outRoot, "evidence"), 0o755)
	data, _ := json.MarshalIndent(ev, "", " ")
	_ = os.WriteFile(filepath.Join(outRoot, "evidence", prop+".json"), data, 0o644)
	if os.Getenv("GOVC_REBASELINE") == "1" && violations == 0 && len(engineBad) == 0 {
		writeBaseline(prop, frs)
	}
	fmt.Printf("%s %s: %d obligations, %d discharged, %d known findings, %d violations, %d functions (%d refused), %.1fs\n",
		prop, tier, nObl, nDis, known, violations, len(frs), len(refused), time.Since(t0).Seconds())
	if violations > 0 {
		// contradictory assumptions after a failed obligation are a consequence of the violation (a failed `requires`
		// is assumed after it is reported), not a defect of the machinery: they are shown as notes
		for _, b := range engineBad {
			fmt.Println("NOTE (follows from the violation above):", b)
		}
		return 1
	}
	if len(engineBad) > 0 || len(disagree) > 0 {
		for _, b := range engineBad {
			fmt.Println("ENGINE-ERROR:", b)
		}
		for _, d := range disagree {
			fmt.Println("ENGINE-ERROR: solvers disagree on", d)
		}
		return 2
	}
	return 0
}

// dropQuantified removes the top-level assertions that contain a quantifier.
func dropQuantified(script string) string {
	var out []string
	for _, l := range strings.Split(script, "\n") {
		if strings.HasPrefix(l, "(assert ") && (strings.Contains(l, "(forall ") || strings.Contains(l, "(exists ")) {
			continue
		}
		out = append(out, l)
	}
	return strings.Join(out, "\n")
}

func replayTemplateExists(fr *FuncResult) bool {
	if fr == nil || fr.VC == nil || fr.VC.fn == nil {
		return false
	}
	_, err := os.Stat(replayTemplatePath(fr))
	return err == nil
}

func truncate(s string, n int) string {
	if len(s) > n {
		return s[:n] + "…"
	}
	return s
}

var trustedBase = []string{
	"govc: the SSA-to-SMT translation in /verif/engine (heap component model, closed-world interface dispatch, slice value model, panic conditions)",
	"golang.org/x/tools v0.29.0 go/packages + go/ssa as the front end; the Go compiler implements the language specification",
	"z3 4.8.12, z3-new 5.1.0, cvc5 1.0 (one unsat answer discharges an obligation)",
	"extern contracts in /verif/contracts/*.spec (assumed, listed under externs_assumed)",
}

var standingAssumptions = []string{
	"goroutines are not interleaved; `go f()` is recorded as a spawn event",
	"slices are values: aliasing through shared backing arrays is not modelled",
	"no typed-nil pointers are stored in interfaces",
	"closed world for interfaces declared inside the repository",
	"memory is unbounded (no allocation failure)",
}

func loadBaseline(prop string) []string {
	data, err := os.ReadFile(filepath.Join(verifRoot, "baseline", prop+".txt"))
	if err != nil {
		return nil
	}
	var out []string
	for _, l := range strings.Split(string(data), "\n") {
		if l = strings.TrimSpace(l); l != "" {
			out = append(out, l)
		}
	}
	return out
}

// writeBaseline records the semantic obligations (not the per-instruction safety ones)
// discharged on the baseline tree.
func writeBaseline(prop string, frs []*FuncResult) {
	set := map[string]bool{}
	for _, fr := range frs {
		for _, o := range fr.Obls {
			if o.Expect == "sat" || !o.ok() {
				continue
			}
			if strings.HasPrefix(o.Kind, "safety:") || o.Kind == "overflow" {
				continue
			}
			set[baseName(o.Name)] = true
		}
	}
	var names []string
	for n := range set {
		names = append(names, n)
	}
	sort.Strings(names)
	_ = os.MkdirAll(filepath.Join(verifRoot, "baseline"), 0o755)
	_ = os.WriteFile(filepath.Join(verifRoot, "baseline", prop+".txt"), []byte(strings.Join(names, "\n")+"\n"), 0o644)
}

// tryReplayMaybe: the evaluation of seeded changes only asks WHETHER a change is reported; GOVC_NOREPLAY=1 skips the
// replay of counterexamples there (every registered check runs with replay).
func tryReplayMaybe(fr *FuncResult, o *Oblig, model map[string]string) (bool, string, string) {
	if os.Getenv("GOVC_NOREPLAY") != "" {
		return false, "", ""
	}
	return tryReplay(fr, o, model)
}
