package main

// Loading of /repo's packages and the per-function VC object.

import (
	"fmt"
	"go/ast"
	"go/token"
	"go/types"
	"os"
	"path/filepath"
	"sort"
	"strconv"
	"strings"
	"sync"

	"golang.org/x/tools/go/packages"
	"golang.org/x/tools/go/ssa"
	"golang.org/x/tools/go/ssa/ssautil"
)

type Engine struct {
	globalConst map[string]string // never-reassigned string-table globals: "pkg.Var.Field" -> SMT string literal
	mu          sync.Mutex
	prog        *ssa.Program
	pkgs        []*packages.Package
	ssaPkgs     map[string]*ssa.Package
	db          *SpecDB
	tags        map[string]int
	tagNames    map[int]string
	fnIndex     map[string]*ssa.Function
	implCache   map[string][]types.Type
	boxedTo     map[string][]types.Type // concrete type -> interface types it is converted to somewhere in the repository
	assertedI   map[string]bool         // interface types that are the target of a type assertion / type switch
	named       []*types.Named
	loadSecs    float64
}

const repoPrefix = "github.com/orda-io/orda/"

// loadEngine loads the listed package patterns from module dir (a module root inside /repo)
// with the verif build tag and the lemma overlay.
func loadEngine(moduleDir string, patterns []string, overlay map[string][]byte, db *SpecDB) (*Engine, error) {
	cfg := &packages.Config{
		Mode:       packages.LoadAllSyntax,
		Dir:        moduleDir,
		BuildFlags: []string{"-tags=verif"},
		Env:        append(os.Environ(), "GOFLAGS=-mod=mod", "GOPROXY=off", "GOSUMDB=off", "GOTOOLCHAIN=local"),
		Overlay:    overlay,
	}
	pkgs, err := packages.Load(cfg, patterns...)
	if err != nil {
		return nil, err
	}
	var errs []string
	packages.Visit(pkgs, nil, func(p *packages.Package) {
		for _, e := range p.Errors {
			if strings.HasPrefix(p.PkgPath, repoPrefix) {
				errs = append(errs, e.Error())
			}
		}
	})
	if len(errs) > 0 {
		return nil, fmt.Errorf("package errors:\n%s", strings.Join(errs, "\n"))
	}
	prog, _ := ssautil.AllPackages(pkgs, ssa.SanityCheckFunctions|ssa.BareInits|ssa.InstantiateGenerics)
	for _, sp := range prog.AllPackages() {
		if strings.HasPrefix(sp.Pkg.Path(), repoPrefix) {
			sp.SetDebugMode(true) // DebugRef instructions give loop invariants access to named locals
		}
	}
	prog.Build()
	e := &Engine{prog: prog, pkgs: pkgs, db: db, tags: map[string]int{}, tagNames: map[int]string{},
		ssaPkgs: map[string]*ssa.Package{}, fnIndex: map[string]*ssa.Function{}, implCache: map[string][]types.Type{}}
	for _, sp := range prog.AllPackages() {
		e.ssaPkgs[sp.Pkg.Path()] = sp
		for _, m := range sp.Members {
			switch m := m.(type) {
			case *ssa.Function:
				e.indexFn(m)
			case *ssa.Type:
				if n, ok := m.Type().(*types.Named); ok {
					if n.TypeParams().Len() > 0 {
						continue
					}
					e.named = append(e.named, n)
					for _, recv := range []types.Type{n, types.NewPointer(n)} {
						ms := prog.MethodSets.MethodSet(recv)
						for i := 0; i < ms.Len(); i++ {
							if f := prog.MethodValue(ms.At(i)); f != nil {
								e.indexFn(f)
							}
						}
					}
				}
			}
		}
	}
	sort.Slice(e.named, func(i, j int) bool { return shortTypeFull(e.named[i]) < shortTypeFull(e.named[j]) })
	e.scanBoxing()
	e.scanGlobalConsts()
	return e, nil
}

// scanGlobalConsts finds package-level struct variables of the repository that are initialised by a composite
// literal of string literals and never stored to afterwards (field-name tables such as schema.DatatypeDocFields):
// their fields read as constants. Key: "<pkgpath>.<Var>.<Field>".
func (e *Engine) scanGlobalConsts() {
	e.globalConst = map[string]string{}
	stored := map[*ssa.Global]bool{}
	for fn := range ssautil.AllFunctions(e.prog) {
		if fn.Synthetic == "package initializer" {
			continue // the initialisation itself
		}
		for _, b := range fn.Blocks {
			for _, ins := range b.Instrs {
				st, ok := ins.(*ssa.Store)
				if !ok {
					continue
				}
				var root func(v ssa.Value) *ssa.Global
				root = func(v ssa.Value) *ssa.Global {
					switch a := v.(type) {
					case *ssa.Global:
						return a
					case *ssa.FieldAddr:
						return root(a.X)
					case *ssa.IndexAddr:
						return root(a.X)
					}
					return nil
				}
				if g := root(st.Addr); g != nil {
					stored[g] = true
				}
			}
		}
	}
	packages.Visit(e.pkgs, nil, func(p *packages.Package) {
		if !strings.HasPrefix(p.PkgPath, repoPrefix) {
			return
		}
		sp := e.ssaPkgs[p.PkgPath]
		if sp == nil {
			return
		}
		for _, f := range p.Syntax {
			for _, d := range f.Decls {
				gd, ok := d.(*ast.GenDecl)
				if !ok || gd.Tok != token.VAR {
					continue
				}
				for _, spec := range gd.Specs {
					vs, ok := spec.(*ast.ValueSpec)
					if !ok || len(vs.Names) != 1 || len(vs.Values) != 1 {
						continue
					}
					cl, ok := vs.Values[0].(*ast.CompositeLit)
					if !ok {
						continue
					}
					g, _ := sp.Members[vs.Names[0].Name].(*ssa.Global)
					if g == nil || stored[g] {
						continue
					}
					for _, el := range cl.Elts {
						kv, ok := el.(*ast.KeyValueExpr)
						if !ok {
							continue
						}
						k, ok1 := kv.Key.(*ast.Ident)
						lit, ok2 := kv.Value.(*ast.BasicLit)
						if !ok1 || !ok2 || lit.Kind != token.STRING {
							continue
						}
						if sv, err := strconv.Unquote(lit.Value); err == nil {
							e.globalConst[p.PkgPath+"."+vs.Names[0].Name+"."+k.Name] = smtStringLit(sv)
						}
					}
				}
			}
		}
	})
}

func (e *Engine) indexFn(f *ssa.Function) {
	if f.Pkg == nil {
		return
	}
	key := f.Pkg.Pkg.Path() + "::" + f.RelString(f.Pkg.Pkg)
	if _, ok := e.fnIndex[key]; !ok {
		e.fnIndex[key] = f
	}
	for _, a := range f.AnonFuncs {
		e.indexFn(a)
	}
}

func fnKey(f *ssa.Function) string {
	if f.Pkg == nil {
		if f.Synthetic != "" {
			// wrappers: no package; use full string
			return "::" + f.String()
		}
		return "::" + f.String()
	}
	return f.Pkg.Pkg.Path() + "::" + f.RelString(f.Pkg.Pkg)
}

func (e *Engine) contractOf(f *ssa.Function) *Contract {
	if f == nil {
		return nil
	}
	return e.db.Contracts[fnKey(f)]
}

// implTags returns the type tags of all concrete types implementing interface t,
// or nil when the world is not closed (empty interface, error, foreign interfaces).
func (e *Engine) implTags(x *VC, t types.Type) []string {
	impls := e.implementers(t)
	if impls == nil {
		return nil
	}
	var out []string
	for _, c := range impls {
		out = append(out, x.tag(c))
	}
	return out
}

func (e *Engine) implementers(t types.Type) []types.Type {
	it, ok := t.Underlying().(*types.Interface)
	if !ok || it.NumMethods() == 0 {
		return nil
	}
	// closed world only for interfaces declared inside the repository
	if n, ok := t.(*types.Named); ok {
		if n.Obj().Pkg() == nil || !strings.HasPrefix(n.Obj().Pkg().Path(), repoPrefix) {
			return nil
		}
	} else {
		return nil
	}
	key := shortTypeFull(t)
	e.mu.Lock()
	if r, ok := e.implCache[key]; ok {
		e.mu.Unlock()
		return r
	}
	e.mu.Unlock()
	out := []types.Type{}
	for _, n := range e.named {
		if _, isIface := n.Underlying().(*types.Interface); isIface {
			continue
		}
		// struct types are used through pointers (value structs boxed into repository interfaces
		// would show up in the boxing scan); other named types by value
		_, isStruct := n.Underlying().(*types.Struct)
		var cand types.Type
		if p := types.NewPointer(n); isStruct && types.Implements(p, it) {
			cand = p
		} else if types.Implements(n, it) {
			cand = n
		} else if types.Implements(p, it) {
			cand = p
		}
		// keep only types that can actually be the dynamic type behind this interface
		if cand != nil && e.canBeBehind(cand, it) {
			out = append(out, cand)
		}
	}
	e.mu.Lock()
	e.implCache[key] = out
	e.mu.Unlock()
	return out
}

// ---- VC --------------------------------------------------------------------

type Oblig struct {
	Name    string
	Kind    string
	Pos     string
	Prefix  int
	Guard   string
	Cond    string
	Expect  string // unsat (default) | sat (cover / canary)
	GetVals []string
	Result  SolverResult
	All     []SolverResult
	Func    string
	Script  string
	Note    string
	Before  *Oblig // cover:after-call: the matching cover taken just before the call
	Retried int    // >0: discharged only in a retry round (timeout multiplier of that round)
}

type VC struct {
	shifted      map[string]string // (backing array, offset) of a loaded slice -> its offset-0 copy
	dtZero       map[string]string // datatype sort -> zero term
	eng          *Engine
	fn           *ssa.Function
	c            *Contract
	mode         string
	noOvf        bool
	script       []string
	obls         []*Oblig
	n            int
	epN          int
	comps        map[string]*Comp
	compOrder    []string
	noName       int
	specMode     int
	writeLog     map[string]bool
	externs      map[string]bool
	inlined      map[string]bool
	callsBy      map[string]bool
	oblNames     map[string]int
	entry        *State
	axiomLine    map[string]bool
	lemmasUse    map[string]bool
	curPos       string
	ghostEvt     map[string]int
	notes        []string
	maxDepth     int
	modelVals    []string // terms worth reporting in counterexamples
	modelLbl     map[string]string
	fvPtr        map[string]*Val // captured variables of a function literal under contract: name -> pointer to its cell
	iters        map[*ssa.Range]*iterState
	defs         map[string]string
	inlineCount  int
	replayBounds []string
	lemmaName    string
	wrap         bool // math sort with exact modular semantics for + - * and conversions
	specArith    int
	boxOrigin    map[string]*Val
}

func newVC(e *Engine, fn *ssa.Function, c *Contract) *VC {
	x := &VC{eng: e, fn: fn, c: c, mode: "math", comps: map[string]*Comp{}, externs: map[string]bool{}, inlined: map[string]bool{},
		callsBy: map[string]bool{}, oblNames: map[string]int{}, lemmasUse: map[string]bool{}, ghostEvt: map[string]int{},
		maxDepth: 8, modelLbl: map[string]string{}, fvPtr: map[string]*Val{}, iters: map[*ssa.Range]*iterState{}, defs: map[string]string{}, boxOrigin: map[string]*Val{}}
	if c != nil {
		x.mode = c.Mode
		x.noOvf = c.NoOvf != ""
		if c.Mode == "wrap" {
			x.mode = "math"
			x.wrap = true
		}
	}
	return x
}

const prelude = `(set-option :produce-models true)
(set-logic ALL)
(declare-sort Float 0)
(declare-fun fzero () Float)
(declare-fun dtype (Int) Int)
(declare-fun dec (Int) String)
(declare-fun ptrtag (Int) Bool)
`

func (x *VC) posOf(i ssa.Instruction) string {
	if i == nil {
		return x.curPos
	}
	p := i.Pos()
	if !p.IsValid() {
		return x.curPos
	}
	pp := x.eng.prog.Fset.Position(p)
	rel := pp.Filename
	if r, err := filepath.Rel(repoRoot, pp.Filename); err == nil && !strings.HasPrefix(r, "..") {
		rel = r
	}
	return fmt.Sprintf("%s:%d", rel, pp.Line)
}

func (x *VC) addObl(kind, label, pos, guard, cond string) *Oblig {
	if x.specMode > 0 || x.noName > 0 {
		return nil
	}
	if guard == "false" || cond == "true" {
		// trivially discharged; still count it so the obligation list is stable
	}
	base := fmt.Sprintf("%s/%s", fnKeyShort(x.fn), kind)
	if x.lemmaName != "" {
		base = "lemma"
	}
	if label != "" {
		base += "[" + label + "]"
	}
	x.oblNames[base]++
	name := base
	if n := x.oblNames[base]; n > 1 {
		name = fmt.Sprintf("%s#%d", base, n)
	}
	o := &Oblig{Name: name, Kind: kind, Pos: pos, Prefix: len(x.script), Guard: guard, Cond: cond, Expect: "unsat", Func: fnKeyShort(x.fn)}
	x.obls = append(x.obls, o)
	if len(x.obls) > 2500 {
		x.refuse("more than 2500 obligations: callees need contracts instead of inlining")
	}
	return o
}

func fnKeyShort(f *ssa.Function) string {
	if f.Pkg == nil {
		return f.String()
	}
	return f.Pkg.Pkg.Name() + "." + f.RelString(f.Pkg.Pkg)
}

func (x *VC) scriptFor(o *Oblig) string {
	var sb strings.Builder
	sb.WriteString(prelude)
	for _, l := range x.script[:o.Prefix] {
		if o.Expect == "sat" && x.axiomLine[l] {
			// cover queries leave out the quantified axioms/lemmas a contract `uses`: solvers answer
			// `unknown` on satisfiable quantified problems; dropping assertions can only make a cover
			// easier to satisfy, never hide an unsat one caused by the path itself
			continue
		}
		sb.WriteString(l)
		sb.WriteByte('\n')
	}
	sb.WriteString("(assert " + o.Guard + ")\n")
	if o.Expect == "sat" {
		sb.WriteString("(assert " + o.Cond + ")\n")
	} else {
		sb.WriteString("(assert " + sNot(o.Cond) + ")\n")
	}
	return sb.String()
}

// targets returns the functions a contract is to be verified on: the function itself, or —
// for a contract declared on an interface method (`Iface.Method`) — the method of every
// implementer in the loaded program (behavioural subtyping).
func (e *Engine) targets(c *Contract) []*ssa.Function {
	if f := e.fnIndex[c.Pkg+"::"+c.Name]; f != nil {
		return []*ssa.Function{f}
	}
	if strings.HasPrefix(c.Name, "(") {
		return nil
	}
	dot := strings.Index(c.Name, ".")
	if dot < 0 {
		return nil
	}
	pkg := e.pkgByPath(c.Pkg)
	if pkg == nil {
		return nil
	}
	o := pkg.Scope().Lookup(c.Name[:dot])
	if o == nil {
		return nil
	}
	it, ok := o.Type().Underlying().(*types.Interface)
	if !ok {
		return nil
	}
	_ = it
	var out []*ssa.Function
	for _, ct := range e.implementers(o.Type()) {
		if len(c.Targets) > 0 {
			okT := false
			for _, t := range c.Targets {
				if shortType(ct) == t || strings.HasSuffix(shortType(ct), "."+strings.TrimPrefix(t, "*")) {
					okT = true
				}
			}
			if !okT {
				continue
			}
		}
		ms := e.prog.MethodSets.MethodSet(ct)
		for i := 0; i < ms.Len(); i++ {
			if ms.At(i).Obj().Name() == c.Name[dot+1:] {
				if viaEmbeddedInterface(ms.At(i)) {
					continue // pure delegation to whatever the embedded interface holds
				}
				if f := e.prog.MethodValue(ms.At(i)); f != nil && f.Blocks != nil {
					out = append(out, f)
				}
			}
		}
	}
	return out
}

// viaEmbeddedInterface reports whether a method is promoted through an embedded field of
// interface type (the struct only delegates to the value stored there).
func viaEmbeddedInterface(sel *types.Selection) bool {
	t := sel.Recv()
	idx := sel.Index()
	for _, i := range idx[:len(idx)-1] {
		if p, ok := t.Underlying().(*types.Pointer); ok {
			t = p.Elem()
		}
		su, ok := t.Underlying().(*types.Struct)
		if !ok {
			return false
		}
		t = su.Field(i).Type()
		if _, isI := t.Underlying().(*types.Interface); isI {
			return true
		}
	}
	return false
}

// scanBoxing records every conversion of a concrete type to an interface type in repository code.
func (e *Engine) scanBoxing() {
	e.boxedTo = map[string][]types.Type{}
	e.assertedI = map[string]bool{}
	var visit func(f *ssa.Function)
	seen := map[*ssa.Function]bool{}
	visit = func(f *ssa.Function) {
		if f == nil || seen[f] {
			return
		}
		seen[f] = true
		for _, b := range f.Blocks {
			for _, ins := range b.Instrs {
				switch i := ins.(type) {
				case *ssa.MakeInterface:
					k := shortTypeFull(i.X.Type())
					e.boxedTo[k] = append(e.boxedTo[k], i.Type())
				case *ssa.TypeAssert:
					if _, ok := i.AssertedType.Underlying().(*types.Interface); ok {
						e.assertedI[shortTypeFull(i.AssertedType)] = true
					}
				}
			}
		}
		for _, a := range f.AnonFuncs {
			visit(a)
		}
	}
	for _, f := range e.fnIndex {
		if f.Pkg != nil && strings.HasPrefix(f.Pkg.Pkg.Path(), repoPrefix) {
			visit(f)
		}
	}
}

// canBeBehind: ct is converted somewhere to an interface that statically includes `it`
// (so a value of static type `it` can hold it), or `it` is reached by type assertions and
// ct is boxed at all.
func (e *Engine) canBeBehind(ct types.Type, it *types.Interface) bool {
	tos := e.boxedTo[shortTypeFull(ct)]
	if len(tos) == 0 {
		return false
	}
	for _, j := range tos {
		ji, ok := j.Underlying().(*types.Interface)
		if !ok {
			continue
		}
		if types.Implements(ji, it) || ji == it { // J's method set includes I's
			return true
		}
	}
	for k := range e.assertedI {
		_ = k
	}
	// reached only through a type assertion to an interface that includes `it`
	for _, n := range e.named {
		ni, ok := n.Underlying().(*types.Interface)
		if !ok || !e.assertedI[shortTypeFull(n)] {
			continue
		}
		if (types.Implements(ni, it) || ni == it) && (types.Implements(ct, ni)) {
			return true
		}
	}
	return false
}
