package main

// Replay of solver counterexamples against the real code: a Go test rendered from
// the function's replay template is injected in-package with `go test -overlay`.

import (
	"bytes"
	"context"
	"encoding/json"
	"fmt"
	"os"
	"os/exec"
	"path/filepath"
	"regexp"
	"strconv"
	"strings"
	"text/template"
	"time"
)

var bvLitRe = regexp.MustCompile(`^\(_ bv(\d+) \d+\)$`)
var negRe = regexp.MustCompile(`^\(- (\d+)\)$`)
var supportRe = regexp.MustCompile(`VERIF-REPLAY-SUPPORT: (\w+)`)
var uEsc = regexp.MustCompile(`\\u\{([0-9a-fA-F]+)\}`)

// goLiteral converts an SMT model value to Go source text.
func goLiteral(v string) string {
	v = strings.TrimSpace(v)
	switch {
	case v == "true" || v == "false":
		return v
	case strings.HasPrefix(v, "#x"):
		n, err := strconv.ParseUint(v[2:], 16, 64)
		if err == nil {
			return strconv.FormatUint(n, 10)
		}
	case strings.HasPrefix(v, "#b"):
		n, err := strconv.ParseUint(v[2:], 2, 64)
		if err == nil {
			return strconv.FormatUint(n, 10)
		}
	case bvLitRe.MatchString(v):
		return bvLitRe.FindStringSubmatch(v)[1]
	case negRe.MatchString(v):
		return "-" + negRe.FindStringSubmatch(v)[1]
	case strings.HasPrefix(v, "\""):
		s := v[1 : len(v)-1]
		s = strings.ReplaceAll(s, `""`, `"`)
		s = uEsc.ReplaceAllStringFunc(s, func(m string) string {
			h := uEsc.FindStringSubmatch(m)[1]
			n, _ := strconv.ParseUint(h, 16, 32)
			return string(rune(n))
		})
		return strconv.Quote(s)
	}
	return v
}

func replayTemplatePath(fr *FuncResult) string {
	return filepath.Join(verifRoot, "replay", sanitize(fr.Key)+".go.tmpl")
}

// tryReplay renders and runs the replay test. Returns (reproduced, output, test source).
var replayPkgRe = regexp.MustCompile(`VERIF-REPLAY-PACKAGE:\s*(\S+)`)

func tryReplay(fr *FuncResult, o *Oblig, model map[string]string) (bool, string, string) {
	if fr == nil || fr.VC == nil || fr.VC.fn.Pkg == nil {
		return false, "", ""
	}
	tp := replayTemplatePath(fr)
	tdata, err := os.ReadFile(tp)
	if err != nil {
		return false, "", ""
	}
	vals := map[string]string{"Obligation": o.Name}
	for k, v := range model {
		vals[sanitize(k)] = goLiteral(v)
	}
	if len(model) == 0 && !strings.Contains(string(tdata), "VERIF-REPLAY-ENUMERATES") {
		return false, "", "" // template needs model values
	}
	tmpl, err := template.New("replay").Delims("<%", "%>").Option("missingkey=error").Parse(string(tdata))
	if err != nil {
		return false, "template error: " + err.Error(), string(tdata)
	}
	var buf bytes.Buffer
	if err := tmpl.Execute(&buf, vals); err != nil {
		return false, "template error: " + err.Error(), string(tdata)
	}
	test := buf.String()
	pkgPath := fr.VC.fn.Pkg.Pkg.Path()
	mod := moduleOf(pkgPath + "/")
	if mod == "" {
		return false, "no module for " + pkgPath, test
	}
	rel := strings.TrimPrefix(pkgPath, "github.com/orda-io/orda/")
	if m := replayPkgRe.FindStringSubmatch(test); m != nil {
		// the replay needs a package that can see more than the function's own one (e.g. a whole datatype)
		rel = m[1]
	}
	pkgDir := filepath.Join(repoRoot, rel)
	dir := scratchDir()
	tf := filepath.Join(dir, fmt.Sprintf("replay_%d_test.go", time.Now().UnixNano()))
	_ = os.WriteFile(tf, []byte(test), 0o644)
	repl := map[string]string{filepath.Join(pkgDir, "zz_verif_replay_test.go"): tf}
	for _, m := range supportRe.FindAllStringSubmatch(test, -1) {
		sf := filepath.Join(verifRoot, "replay", "support", m[1]+"_test.go")
		if _, err := os.Stat(sf); err == nil {
			repl[filepath.Join(pkgDir, "zz_verif_support_"+m[1]+"_test.go")] = sf
		}
	}
	ov := map[string]map[string]string{"Replace": repl}
	ovData, _ := json.Marshal(ov)
	of := tf + ".overlay.json"
	_ = os.WriteFile(of, ovData, 0o644)
	defer os.Remove(tf)
	defer os.Remove(of)
	ctx, cancel := context.WithTimeout(context.Background(), 180*time.Second)
	defer cancel()
	// a scratch go.mod/go.sum so that nothing under /repo can be rewritten by the go command
	mf := filepath.Join(dir, fmt.Sprintf("mod%d", time.Now().UnixNano()))
	_ = os.MkdirAll(mf, 0o755)
	defer os.RemoveAll(mf)
	for _, n := range []string{"go.mod", "go.sum"} {
		if b, err := os.ReadFile(filepath.Join(mod, n)); err == nil {
			_ = os.WriteFile(filepath.Join(mf, n), b, 0o644)
		}
	}
	cmd := exec.CommandContext(ctx, "bash", "-c", fmt.Sprintf("ulimit -v 16000000; cd %s && go test -modfile=%s -overlay %s -vet=off -count=1 -timeout 90s -run '^TestVerifReplay$' ./%s", mod, filepath.Join(mf, "go.mod"), of, strings.TrimPrefix(rel, filepath.Base(mod)+"/")))
	cmd.Env = append(os.Environ(), "GOFLAGS=-mod=mod", "GOPROXY=off", "GOSUMDB=off", "GOTOOLCHAIN=local")
	var out bytes.Buffer
	cmd.Stdout = &out
	cmd.Stderr = &out
	err = cmd.Run()
	s := out.String()
	reproduced := err != nil && strings.Contains(s, "VERIF-REPLAY-FAIL")
	return reproduced, s, test
}
