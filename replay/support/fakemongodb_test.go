// (package mongodb variant of fakemongo_test.go: same fake, plus findAndModify and delete)
// Support code for replaying server-side counterexamples on the real code, offline:
// an in-memory fake MongoDB plugged into the real mongo driver as a custom driver.Deployment,
// so that the unmodified server code (PushPullHandler, mongodb.MongoCollections, the real
// driver) runs against it. Adapted from a demonstration harness written by a sub-agent
// during the seeded-change exercise. Used only by replay tests (never by a proof).
package mongodb

import (
	gocontext "context"
	"fmt"
	"reflect"
	"sort"
	"sync"
	"time"
	"unsafe"

	"github.com/orda-io/orda/client/pkg/context"
	"github.com/orda-io/orda/server/schema"
	"go.mongodb.org/mongo-driver/bson"
	"go.mongodb.org/mongo-driver/mongo"
	"go.mongodb.org/mongo-driver/mongo/address"
	"go.mongodb.org/mongo-driver/mongo/description"
	"go.mongodb.org/mongo-driver/mongo/options"
	"go.mongodb.org/mongo-driver/x/bsonx/bsoncore"
	"go.mongodb.org/mongo-driver/x/mongo/driver"
	"go.mongodb.org/mongo-driver/x/mongo/driver/topology"
	"go.mongodb.org/mongo-driver/x/mongo/driver/wiremessage"
)

// ---------------------------------------------------------------------------
// Offline harness: an in-memory fake MongoDB plugged into the real mongo driver
// as a custom driver.Deployment, so that the unmodified server code
// (PushPullHandler + mongodb.MongoCollections) runs against it.
// ---------------------------------------------------------------------------

type fakeMongo struct {
	mu       sync.Mutex
	colls    map[string][]bson.D
	pending  bson.D
	failCmd  string // name of the command to fail ("insert", "update", ...)
	failIn   int    // fail the failIn-th (1-based) occurrence of failCmd from now; 0 = never
	failColl string // restrict the fault to this collection
	updates  chan description.Topology
}

func newFakeMongo() *fakeMongo { return &fakeMongo{colls: map[string][]bson.D{}} }

// --- driver.Connection ---
func (f *fakeMongo) WriteWireMessage(_ gocontext.Context, wm []byte) error {
	f.mu.Lock()
	defer f.mu.Unlock()
	f.pending = f.handle(wm)
	return nil
}

func (f *fakeMongo) ReadWireMessage(_ gocontext.Context, dst []byte) ([]byte, error) {
	f.mu.Lock()
	defer f.mu.Unlock()
	var idx int32
	idx, dst = wiremessage.AppendHeaderStart(dst, wiremessage.NextRequestID(), 0, wiremessage.OpMsg)
	dst = wiremessage.AppendMsgFlags(dst, 0)
	dst = wiremessage.AppendMsgSectionType(dst, wiremessage.SingleDocument)
	b, err := bson.Marshal(f.pending)
	if err != nil {
		return dst, err
	}
	dst = append(dst, b...)
	dst = bsoncore.UpdateLength(dst, idx, int32(len(dst[idx:])))
	return dst, nil
}
func (f *fakeMongo) Description() description.Server {
	return description.Server{
		CanonicalAddr:         address.Address("localhost:27017"),
		MaxDocumentSize:       16777216,
		MaxMessageSize:        48000000,
		MaxBatchCount:         100000,
		SessionTimeoutMinutes: 30,
		Kind:                  description.RSPrimary,
		WireVersion:           &description.VersionRange{Max: topology.SupportedWireVersions.Max},
	}
}
func (f *fakeMongo) Close() error               { return nil }
func (f *fakeMongo) ID() string                 { return "<fake>" }
func (f *fakeMongo) ServerConnectionID() *int32 { i := int32(1); return &i }
func (f *fakeMongo) Address() address.Address   { return address.Address("localhost:27017") }
func (f *fakeMongo) Stale() bool                { return false }

// --- driver.Deployment / Server / Connector / Disconnector / Subscriber ---
func (f *fakeMongo) SelectServer(gocontext.Context, description.ServerSelector) (driver.Server, error) {
	return f, nil
}
func (f *fakeMongo) Kind() description.TopologyKind                          { return description.Single }
func (f *fakeMongo) Connection(gocontext.Context) (driver.Connection, error) { return f, nil }
func (f *fakeMongo) MinRTT() time.Duration                                   { return 0 }
func (f *fakeMongo) RTT90() time.Duration                                    { return 0 }
func (f *fakeMongo) Connect() error                                          { return nil }
func (f *fakeMongo) Disconnect(gocontext.Context) error                      { return nil }
func (f *fakeMongo) Subscribe() (*driver.Subscription, error) {
	if f.updates == nil {
		f.updates = make(chan description.Topology, 1)
		f.updates <- description.Topology{SessionTimeoutMinutes: 30}
	}
	return &driver.Subscription{Updates: f.updates}, nil
}
func (f *fakeMongo) Unsubscribe(*driver.Subscription) error { return nil }

// --- command interpreter ---
func (f *fakeMongo) handle(wm []byte) bson.D {
	_, _, _, _, rem, ok := wiremessage.ReadHeader(wm)
	if !ok {
		return bson.D{{"ok", 0}, {"errmsg", "bad header"}, {"code", 1}}
	}
	_, rem, _ = wiremessage.ReadMsgFlags(rem)
	var cmd bson.D
	seqs := map[string][]bson.D{}
	for len(rem) > 0 {
		var st wiremessage.SectionType
		st, rem, ok = wiremessage.ReadMsgSectionType(rem)
		if !ok {
			break
		}
		if st == wiremessage.SingleDocument {
			var doc bsoncore.Document
			doc, rem, _ = wiremessage.ReadMsgSectionSingleDocument(rem)
			_ = bson.Unmarshal(doc, &cmd)
		} else {
			var id string
			var docs []bsoncore.Document
			id, docs, rem, _ = wiremessage.ReadMsgSectionDocumentSequence(rem)
			for _, d := range docs {
				var x bson.D
				_ = bson.Unmarshal(d, &x)
				seqs[id] = append(seqs[id], x)
			}
		}
	}
	if len(cmd) == 0 {
		return bson.D{{"ok", 0}, {"errmsg", "no command"}, {"code", 1}}
	}
	name := cmd[0].Key
	coll, _ := cmd[0].Value.(string)
	arr := func(key string) []bson.D {
		if s, ok := seqs[key]; ok {
			return s
		}
		var out []bson.D
		if a, ok := get(cmd, key).(bson.A); ok {
			for _, e := range a {
				if d, ok := e.(bson.D); ok {
					out = append(out, d)
				}
			}
		}
		return out
	}
	if f.failIn > 0 && f.failCmd == name && (f.failColl == "" || f.failColl == coll) {
		f.failIn--
		if f.failIn == 0 {
			return bson.D{{"ok", 0}, {"errmsg", "injected fault: connection to storage lost"}, {"code", 6}, {"codeName", "HostUnreachable"}}
		}
	}
	switch name {
	case "insert":
		ordered := true
		if b, ok := get(cmd, "ordered").(bool); ok {
			ordered = b
		}
		n := 0
		var werrs bson.A
		for i, d := range arr("documents") {
			id := get(d, "_id")
			dup := false
			for _, e := range f.colls[coll] {
				if reflect.DeepEqual(get(e, "_id"), id) {
					dup = true
					break
				}
			}
			if dup {
				werrs = append(werrs, bson.D{{"index", int32(i)}, {"code", int32(11000)}, {"errmsg", fmt.Sprintf("E11000 duplicate key error: _id %v", id)}})
				if ordered {
					break
				}
				continue
			}
			f.colls[coll] = append(f.colls[coll], d)
			n++
		}
		res := bson.D{{"ok", 1}, {"n", int32(n)}}
		if len(werrs) > 0 {
			res = append(res, bson.E{Key: "writeErrors", Value: werrs})
		}
		return res
	case "find":
		filter, _ := get(cmd, "filter").(bson.D)
		var out []bson.D
		for _, d := range f.colls[coll] {
			if matches(d, filter) {
				out = append(out, d)
			}
		}
		if s, ok := get(cmd, "sort").(bson.D); ok && len(s) == 1 {
			key, dir := s[0].Key, num(s[0].Value)
			sort.SliceStable(out, func(i, j int) bool {
				if dir >= 0 {
					return num(get(out[i], key)) < num(get(out[j], key))
				}
				return num(get(out[i], key)) > num(get(out[j], key))
			})
		}
		if l := int(num(get(cmd, "limit"))); l > 0 && len(out) > l {
			out = out[:l]
		}
		batch := bson.A{}
		for _, d := range out {
			batch = append(batch, d)
		}
		return bson.D{{"ok", 1}, {"cursor", bson.D{{"id", int64(0)}, {"ns", "orda." + coll}, {"firstBatch", batch}}}}
	case "update":
		n, nMod := 0, 0
		var upserted bson.A
		for i, u := range arr("updates") {
			q, _ := get(u, "q").(bson.D)
			set, _ := get(get(u, "u"), "$set").(bson.D)
			found := -1
			for k, d := range f.colls[coll] {
				if matches(d, q) {
					found = k
					break
				}
			}
			if found >= 0 {
				f.colls[coll][found] = applySet(f.colls[coll][found], set)
				n++
				nMod++
			} else if b, _ := get(u, "upsert").(bool); b {
				var nd bson.D
				for _, e := range q {
					if _, isOp := e.Value.(bson.D); !isOp {
						nd = append(nd, e)
					}
				}
				nd = applySet(nd, set)
				f.colls[coll] = append(f.colls[coll], nd)
				n++
				upserted = append(upserted, bson.D{{"index", int32(i)}, {"_id", get(nd, "_id")}})
			}
		}
		res := bson.D{{"ok", 1}, {"n", int32(n)}, {"nModified", int32(nMod)}}
		if len(upserted) > 0 {
			res = append(res, bson.E{Key: "upserted", Value: upserted})
		}
		return res
	case "delete":
		n := 0
		for _, dl := range arr("deletes") {
			q, _ := get(dl, "q").(bson.D)
			limit := int(num(get(dl, "limit")))
			var keep []bson.D
			removed := 0
			for _, d := range f.colls[coll] {
				if matches(d, q) && (limit == 0 || removed < limit) {
					removed++
					continue
				}
				keep = append(keep, d)
			}
			f.colls[coll] = keep
			n += removed
		}
		return bson.D{{"ok", 1}, {"n", int32(n)}}
	case "findAndModify":
		q, _ := get(cmd, "query").(bson.D)
		upd, _ := get(cmd, "update").(bson.D)
		inc, _ := get(upd, "$inc").(bson.D)
		upsert, _ := get(cmd, "upsert").(bool)
		retNew, _ := get(cmd, "new").(bool)
		found := -1
		for k, d := range f.colls[coll] {
			if matches(d, q) {
				found = k
				break
			}
		}
		apply := func(d bson.D) bson.D {
			out := append(bson.D{}, d...)
			for _, i := range inc {
				done := false
				for k := range out {
					if out[k].Key == i.Key {
						out[k].Value = int32(num(out[k].Value) + num(i.Value))
						done = true
					}
				}
				if !done {
					out = append(out, bson.E{Key: i.Key, Value: int32(num(i.Value))})
				}
			}
			return out
		}
		if found < 0 {
			if !upsert {
				return bson.D{{"ok", 1}, {"value", nil}, {"lastErrorObject", bson.D{{"n", int32(0)}, {"updatedExisting", false}}}}
			}
			var nd bson.D
			nd = append(nd, q...)
			nd = apply(nd)
			f.colls[coll] = append(f.colls[coll], nd)
			var val interface{}
			if retNew {
				val = nd
			}
			return bson.D{{"ok", 1}, {"value", val}, {"lastErrorObject", bson.D{{"n", int32(1)}, {"updatedExisting", false}, {"upserted", get(nd, "_id")}}}}
		}
		before := f.colls[coll][found]
		after := apply(before)
		f.colls[coll][found] = after
		val := before
		if retNew {
			val = after
		}
		return bson.D{{"ok", 1}, {"value", val}, {"lastErrorObject", bson.D{{"n", int32(1)}, {"updatedExisting", true}}}}
	default:
		return bson.D{{"ok", 1}}
	}
}

func get(d interface{}, key string) interface{} {
	dd, ok := d.(bson.D)
	if !ok {
		return nil
	}
	for _, e := range dd {
		if e.Key == key {
			return e.Value
		}
	}
	return nil
}

func num(v interface{}) float64 {
	switch x := v.(type) {
	case int32:
		return float64(x)
	case int64:
		return float64(x)
	case float64:
		return x
	case int:
		return float64(x)
	}
	return 0
}

func isNum(v interface{}) bool {
	switch v.(type) {
	case int32, int64, float64, int:
		return true
	}
	return false
}

func matches(doc, filter bson.D) bool {
	for _, c := range filter {
		have := get(doc, c.Key)
		if ops, ok := c.Value.(bson.D); ok && len(ops) > 0 && len(ops[0].Key) > 0 && ops[0].Key[0] == '$' {
			for _, o := range ops {
				switch o.Key {
				case "$gte":
					if !(num(have) >= num(o.Value)) {
						return false
					}
				case "$lte":
					if !(num(have) <= num(o.Value)) {
						return false
					}
				default:
					return false
				}
			}
			continue
		}
		if isNum(have) && isNum(c.Value) {
			if num(have) != num(c.Value) {
				return false
			}
			continue
		}
		if !reflect.DeepEqual(have, c.Value) {
			return false
		}
	}
	return true
}

func applySet(doc, set bson.D) bson.D {
	out := append(bson.D{}, doc...)
	for _, s := range set {
		done := false
		for i := range out {
			if out[i].Key == s.Key {
				out[i].Value = s.Value
				done = true
				break
			}
		}
		if !done {
			out = append(out, s)
		}
	}
	return out
}

// setUnexported sets an unexported struct field (test only).
func setUnexported(structPtr interface{}, field string, value interface{}) {
	fv := reflect.ValueOf(structPtr).Elem().FieldByName(field)
	reflect.NewAt(fv.Type(), unsafe.Pointer(fv.UnsafeAddr())).Elem().Set(reflect.ValueOf(value))
}



// newVerifCollections: the real MongoCollections wired to the fake through the real driver.
func newVerifCollections() (*MongoCollections, *fakeMongo, error) {
	fake := newFakeMongo()
	cli, err := mongo.Connect(gocontext.TODO(), &options.ClientOptions{Deployment: fake})
	if err != nil {
		return nil, nil, err
	}
	db := cli.Database("orda")
	mc := &MongoCollections{}
	setUnexported(mc, "mongoClient", cli)
	setUnexported(mc, "clients", db.Collection(schema.CollectionNameClients))
	setUnexported(mc, "counters", db.Collection(schema.CollectionNameColNumGenerator))
	setUnexported(mc, "snapshots", db.Collection(schema.CollectionNameSnapshot))
	setUnexported(mc, "datatypes", db.Collection(schema.CollectionNameDatatypes))
	setUnexported(mc, "operations", db.Collection(schema.CollectionNameOperations))
	setUnexported(mc, "collections", db.Collection(schema.CollectionNameCollections))
	return mc, fake, nil
}

var _ = context.NewOrdaContext
var _ = sort.Ints
var _ = time.Now
var _ = topology.ErrServerClosed
