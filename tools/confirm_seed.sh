#!/bin/bash
# usage: confirm_seed.sh /tmp/seed-Cnn m1   — confirms in the scratch worktree: builds + client suite pass with the
# change, demo fails with it, demo passes without it. Writes <seed>/out/<m>/confirm.txt
export GOFLAGS=-mod=mod GOPROXY=off GOSUMDB=off GOTOOLCHAIN=local
wt=$1; m=$2; d=$wt/out/$m
log=$d/confirm.txt; : > $log
cd $wt || exit 2
clean() { cd $wt; git checkout -- . 2>/dev/null; git clean -fdq -e out . ; }
clean
# a trailing `; rm -f ...` clean-up in the recorded command would hide the test's exit status
demo=$(python3 -c "import json,re;print(re.sub(r';\s*rm -f .*$','',json.load(open('$d/meta.json'))['demo_cmd']))")
if ! git apply --check $d/patch.diff 2>>$log; then echo "RESULT patch-does-not-apply" | tee -a $log; exit 1; fi
git apply $d/patch.diff
b=ok
for mod in . client server; do (cd $wt/$mod && go build ./... ) >>$log 2>&1 || b=FAIL; done
(cd $wt/server && go test -vet=off -count=1 -run '^$' ./... ) >>$log 2>&1 || b=FAIL
echo "build-with-change: $b" >> $log
s=pass; (cd $wt/client && go test -vet=off -count=1 ./... ) >$log.suite 2>&1 || s=FAIL
if [ $s = FAIL ] && [ "$(grep -c '^    --- FAIL' $log.suite)" = 1 ] && grep -q 'FAIL: TestJSONArray/Can_update_value_remotely_in_JSONArray' $log.suite; then
  # pre-existing flake of the pinned suite (about 1 run in 64 on the untouched base commit): run again
  echo "known flaky subtest failed; rerunning the suite" >> $log
  s=pass; (cd $wt/client && go test -vet=off -count=1 ./... ) >$log.suite 2>&1 || s=FAIL
fi
grep -v '^{\|^time=\|^\[' $log.suite | tail -40 >> $log; rm -f $log.suite
echo "suite-with-change: $s" >> $log
# verdict from the go test output, not from the shell status (recorded commands end in clean-up steps or pipes)
verdict() { if grep -qE '^(--- FAIL|FAIL|panic:)|^\s+--- FAIL' $1; then echo fail; elif grep -qE '^ok\s' $1; then echo pass; else echo unknown; fi; }
(cd $wt && timeout 600 bash -c "$demo") >$log.demo 2>&1; dw=$(verdict $log.demo); cat $log.demo >> $log
echo "demo-with-change: $dw" >> $log
cd $wt; git apply -R $d/patch.diff
(cd $wt && timeout 600 bash -c "$demo") >$log.demo 2>&1; dn=$(verdict $log.demo); cat $log.demo >> $log; rm -f $log.demo
echo "demo-without-change: $dn" >> $log
clean
ok=NOTCONFIRMED; [ $b = ok ] && [ $s = pass ] && [ $dw = fail ] && [ $dn = pass ] && ok=CONFIRMED
echo "RESULT $ok build=$b suite=$s demo-with=$dw demo-without=$dn" | tee -a $log
