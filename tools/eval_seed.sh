#!/bin/bash
# usage: eval_seed.sh <patch.diff> <tag> <property>...   — runs the quick checks of the given properties against a scratch
# worktree of /repo HEAD with the patch applied (GOVC_REPO/GOVC_OUT), so /repo and the committed evidence stay untouched.
set -u
patch=$1; tag=$2; shift 2
wt=/tmp/eval-$tag; out=/tmp/eval-$tag-out
git -C /repo worktree remove --force $wt 2>/dev/null; rm -rf $wt $out; mkdir -p $out
git -C /repo worktree add --detach $wt HEAD >/dev/null 2>&1
if ! git -C $wt apply $patch 2>/dev/null; then echo "$tag: PATCH DOES NOT APPLY"; git -C /repo worktree remove --force $wt; exit 2; fi
for p in "$@"; do
  GOVC_REPO=$wt GOVC_OUT=$out /verif/bin/govc check --property $p --tier quick > $out/$p.out 2>&1
  rc=$?
  echo "$tag $p exit=$rc viol=$(grep -c '^VIOLATION' $out/$p.out) :: $(grep '^VIOLATION' $out/$p.out | sed 's/.*replay=[^ ]*replays\/[^\/]*\///; s/\.json//' | head -4 | tr '\n' ' ')"
done
git -C /repo worktree remove --force $wt
