#!/bin/bash
# usage: try_seed.sh <patch.diff> <property>...   — applies the patch to /repo, runs the checks, undoes it
set -u
patch="$1"; shift
cd /repo || exit 2
if ! git apply --check "$patch" 2>/dev/null; then echo "PATCH DOES NOT APPLY: $patch"; exit 2; fi
git apply "$patch"
for p in "$@"; do
  /verif/bin/govc check --property "$p" > /var/tmp/try_seed_$p.out 2>&1
  echo "== $p exit=$? : $(grep -c '^VIOLATION' /var/tmp/try_seed_$p.out) violations"
  grep -E '^(VIOLATION|ENGINE-ERROR)' /var/tmp/try_seed_$p.out | sed 's/replay=\/verif\/replays\///' | head -8
done
git -C /repo apply -R "$patch"
cd /verif && git checkout -- evidence 2>/dev/null
