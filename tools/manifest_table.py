# Table of claimed checks / not-applicable reasons (exec'd by gen_manifest.py)
def P(pid, text, note=None, ref=None):
    CHECKS[pid] = chk(pid, text, (note + " " if note else "") + COMMON_NOTE, ref or ("5 " + pid))

P("C02",
  "Proof for all inputs of the per-function conflict rules, written from the property text: Timestamp/OperationID.Compare is the lexicographic order on (Era, Lamport, CUID); a map key ends up with the entry of greater timestamp and every other key is untouched (putCommonWithTimedType, removeLocal/RemoteWithTimedType, with Size == number of live keys); the counter adds modulo 2^32. List/array sibling order and update/delete rules are not yet under contract (see evidence functions_under_contract).",
  "valid(ts) ranges (Lamport < 2^63, Era < 2^31) are preconditions.")
P("C03",
  "Proof for all arguments of the sequential specification of the Map and Counter snapshots (get/put/remove/size against the plain map of live entries; Size equals the live count) including error-changes-nothing frames; List and Document API functions are not yet under contract.")
P("C05",
  "Proof of the per-function contracts the sync protocol is made of: the client sends exactly its unacknowledged operations (getModelOperations), its checkpoint only moves forward (syncCheckPoint), the server numbers accepted operations consecutively after the end of the log and acknowledges exactly what it stored (pushOperations, pullOperations, commitToMongoDB). The whole-history induction (L2) over these contracts is not yet mechanised.")
P("C06",
  "Proof for all request batches: pushOperations accepts exactly the operations continuing the client's sequence, assigns consecutive server sequence numbers End+1.., stores every such operation once with its identifier, ignores re-pushed ones and refuses a gap; commitToMongoDB records End == checkpoint. Loop invariant over unbounded batches.")
P("C07",
  "Proof of the client-side steps that make retries and stale replies harmless: a reply whose checkpoint is behind the client's drops all its operations (no panic), the checkpoint is a running maximum, pulling arithmetic is exact in 64-bit arithmetic. The property-level lemma (exactly-once under arbitrary fault placement) is not yet mechanised; the count-based skip of excludeDuplicatedOperations is verified only against what the code does.")
P("C08",
  "Proof that an error reply (any code, including storage failures reported by the server) is returned as an error by the client without panic and leaves checkpoint, pending operations and identifiers unchanged (checkOptionAndError), and that commitToMongoDB writes operations before the datatype document. Server-side retry-acceptance after a partial commit is not yet under contract.")
P("C09",
  "Proof for all received operation sequences: ReceiveRemoteModelOperations never slices beyond what was received and always terminates; a transaction unit whose announced length is non-positive or exceeds what is present is refused before any of its operations is applied; ModelToOperation yields a TransactionOperation exactly for transaction-typed operations.")
P("C13",
  "Proof of the server decision table classification (evaluatePushPullCase: what each case code implies about the stored datatype, key, type, collection and subscription), of initClientInfoWithDatatypeDoc, and of the client's handling of subscribe/error replies (checkOptionAndError, ResetWired, ResetSnapshot of counter/map/list). processSubscribeOrCreate refusal rows are not yet under contract.")
P("C14",
  "Proof that ModelToOperation preserves identifier and type, returns the Go operation type matching the wire type for every declared operation type, and that its unsupported-type panic is unreachable for them. Value fidelity through encoding/json, protobuf and BSON is not claimed (library semantics).")
P("C15",
  "Proof, for all clock values and client ids: exact postconditions of OperationID.Next/RollBack/SyncLamport/GetTimestamp and Timestamp.GetAndNextDelimiter in 64/32-bit bit-vector semantics, Compare equals the lexicographic order on (Era, Lamport, CUID) under the stated validity ranges, Hash renders exactly (Era, Lamport, Delimiter, CUID), ResetWired restarts numbering at 0.",
  "valid(ts): Lamport < 2^63, Era < 2^31 are preconditions.")
P("C16",
  "Proof of absence of panics and of the reply/refusal contracts on the parts of the request path under contract: client checkOptionAndError and ReceiveRemoteModelOperations for all replies, server evaluatePushPullCase and initClientInfoWithDatatypeDoc for all requests and database answers. process/finalize (exactly one reply) not yet under contract.")
P("C17",
  "Proof that every datatype document evaluatePushPullCase hands to the handler belongs to the caller's collection, on both lookup paths (by key and by DUID), for all database answers. Purge filters and collection-number generation not yet under contract.")
P("C12",
  "Restricted to the sequential lock discipline (typestate proof, no schedules): process() consults TryLock and refuses the request when the lock is not obtained; every function that reads-modifies-writes the datatype document (pushOperations, pullOperations, commitToMongoDB) has `lock held` as a precondition discharged at its call sites; finalize unlocks exactly what was locked; the lock name is collection:key. Data-race freedom, real parallel executions and the per-call context of cached local locks are NOT decided by this check.",
  "Lock objects are modelled as a ghost set of held locks (utils.Lock / sync.RWMutex extern contracts); blocking and fairness are not modelled.")
P("C10",
  "Restricted: proof that the exported meta carries key, type, DUID and the complete operation identifier (GetMeta), and that the server's rebuild (snapshot.Manager.GetLatestDatatype) imports the latest snapshot and replays exactly the operations stored after it, once. The snapshot encode/decode inverse pairs of the four datatypes (MarshalJSON/UnmarshalJSON) are not yet under contract, so `restored instance behaves identically` is not decided here.")
P("C11",
  "Proof over ghost database state (trusted contracts on the repository methods): GetLatestDatatype rebuilds from the latest snapshot plus exactly the later operations and reports the end of the log as its version; UpdateSnapshot stores that state as snapshot document and as user-visible document under the same version, stores nothing user-visible when it fails, and releases its lock. Equality of the stored bytes with the replayed state relies on C10's round trip (hypothesis), version monotonicity across racing updates is not decided (schedules).",
  "G.stored / G.snapSseq ghost view of MongoDB; consecutive numbering of a range query is the C06 invariant.")
P("C18",
  "Proof of the server publish clause and the client checkpoint filter: finalize spawns the announcement iff the request succeeded and stored at least one operation; sendNotification/NotifyAfterPushPull publish exactly one message on topic collection/key carrying the pusher's CUID, the DUID and the new end of the log; NeedPull compares with the client's checkpoint, which only moves forward. Self-convergence of realtime clients under real concurrent delivery is NOT decided (schedules).",
  "paho Publish modelled as a ghost counter + last topic/payload; json.Marshal records the marshalled object in ghost state.")
P("C19",
  "Restricted to the REST endpoint: proof that PatchDocument continues an existing document at the version it was rebuilt at (checkpoint (version,0) set exactly once), reports a push its handler refused, answers or errors, and releases its lock. The client-side PatchByJSON / patchEach / JSON-pointer path and jsondiff are not yet under contract.")
_pending = "not claimed yet: machinery for this property is still being built in this session (no check registered, nothing reported)"
for p in ["C01","C04"]:
    NA[p] = _pending
NA["C20"] = "quantified over thread schedules only (unsynchronised isLocked/txCtx read racing with BeginTransaction): a sequential weakest-precondition calculus has no second thread; a sequential lock-balance proof would pass while the property is false (DESIGN.md section 6)"
