# Table of claimed checks / not-applicable reasons (exec'd by gen_manifest.py)
CHECKS["C15"] = chk("C15",
    "Proof, for all clock values and client ids: exact postconditions of OperationID.Next/RollBack/SyncLamport/GetTimestamp and Timestamp.GetAndNextDelimiter in 64/32-bit bit-vector semantics, and Compare equals the lexicographic order on (Era, Lamport, CUID) under the stated validity ranges.",
    COMMON_NOTE + " valid(ts): Lamport < 2^63, Era < 2^31 are preconditions.", "5 C15")
_pending = "not claimed yet: machinery for this property is still being built in this session (no check registered, nothing reported)"
for p in ["C01","C02","C03","C04","C05","C06","C07","C08","C09","C10","C11","C12","C13","C14","C16","C17","C18","C19"]:
    NA[p] = _pending
NA["C20"] = "quantified over thread schedules only (unsynchronised isLocked/txCtx read racing with BeginTransaction): a sequential weakest-precondition calculus has no second thread; a sequential lock-balance proof would pass while the property is false (DESIGN.md section 6)"
