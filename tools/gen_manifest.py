#!/usr/bin/env python3
"""Regenerates /verif/MANIFEST.json from the table below (kept next to the code so the
manifest never drifts from what the checks do)."""
import json, os, sys

ENV = "GOFLAGS=-mod=mod GOPROXY=off GOSUMDB=off GOTOOLCHAIN=local"
SETUP = f"cd /verif/engine && {ENV} go build -o /verif/bin/govc ."

def chk(pid, text, note, design_ref, technique="contracts on the real Go code (go/ssa) -> weakest-precondition VCs -> z3/cvc5"):
    return {
        "property_id": pid,
        "quick_cmd": f"/verif/bin/govc check --property {pid} --tier quick",
        "thorough_cmd": f"/verif/bin/govc check --property {pid} --tier thorough",
        "evidence_file": f"/verif/evidence/{pid}.json",
        "engine": "govc",
        "level_claimed": {"category": "proof", "text": text, "design_ref": design_ref},
        "level_note": note,
        "technique": technique,
    }

COMMON_NOTE = ("Trusted: the govc translation (go/ssa -> SMT), x/tools go/ssa, the SMT solvers; extern contracts on "
               "dependencies and modelling assumptions are listed per run in the evidence file (externs_assumed, assumptions).")

CHECKS = {}
NA = {}

exec(open(os.path.join(os.path.dirname(__file__), "manifest_table.py")).read())

props = [json.loads(l)["id"] for l in open("/verif/properties.jsonl")]
checks = [CHECKS[p] for p in props if p in CHECKS]
na = [{"property_id": p, "reason": NA[p]} for p in props if p not in CHECKS]
for p in props:
    if p not in CHECKS and p not in NA:
        sys.exit(f"property {p} neither claimed nor not_applicable")
hooks = []
try:
    hooks = [l.strip() for l in open("/verif/hook_commits.txt") if l.strip()]
except FileNotFoundError:
    pass
m = {
    "version": 1,
    "setup_cmd": SETUP,
    "hooks": {
        "guard": "verif",
        "enable": "go build tag `verif` (packages.Load BuildFlags -tags=verif); hook files are comment-only contract files zz_contracts_verif.go",
        "baseline_off_cmd": f"for m in . client server; do (cd /repo/$m && {ENV} go test -vet=off -count=1 -timeout 25m ./...); done",
        "source_commits": hooks,
        "add_only": True,
    },
    "engines": [{"name": "govc", "path": "/verif/engine", "serves_properties": [c["property_id"] for c in checks],
                 "kind_free_text": "contract-based deductive verifier for Go written for this task: contracts as //@ comments in /repo (build tag verif), VC generation over go/ssa of the working tree, obligations raced on z3 4.8.12 / z3 5.1.0 / cvc5 1.0; lemma (L2) proof functions overlaid from /verif/lemmas"}],
    "checks": checks,
    "not_applicable": na,
    "notes": "See /verif/DESIGN.md. Known findings: /verif/known_findings.txt. Seeded changes: /verif/seeded/.",
}
json.dump(m, open("/verif/MANIFEST.json", "w"), indent=1)
print("wrote MANIFEST.json:", len(checks), "checks,", len(na), "not applicable")
