#!/bin/bash
# usage: ingest_seed3.sh Cnn  — confirms the two round-3 changes of /tmp/seed3-Cnn and, when confirmed, keeps them as
# /verif/seeded/Cnn-r3m1 / Cnn-r3m2 (patch.diff, demo, meta.json with the confirmation record)
ROUND=${ROUND:-3}; p=$1; wt=/tmp/seed${ROUND}-$p
for m in m1 m2; do
  [ -f $wt/out/$m/patch.diff ] || { echo "$p-$m: missing"; continue; }
  r=$(/verif/tools/confirm_seed.sh $wt $m | tail -1)
  echo "$p-r${ROUND}$m: $r"
  if echo "$r" | grep -q "RESULT CONFIRMED"; then
    d=/verif/seeded/$p-r${ROUND}$m; rm -rf $d; mkdir -p $d
    cp $wt/out/$m/patch.diff $d/; cp $wt/out/$m/*.go $d/ 2>/dev/null
    python3 - "$wt/out/$m/meta.json" "$d/meta.json" "$r" "$ROUND" <<'PY'
import json,sys
m=json.load(open(sys.argv[1]))
m["round"]=int(sys.argv[4])
m['origin']='round '+sys.argv[4]+': written by an independent sub-agent that saw only the property text and a scratch worktree of the repaired tree without the contract files (nothing from /verif); asked to avoid the functions earlier changes touched'
m['confirmed_by_me']={'script':'/verif/tools/confirm_seed.sh <scratch worktree> <m>','result':sys.argv[3]}
json.dump(m,open(sys.argv[2],'w'),indent=1)
PY
  fi
done
