#!/bin/bash
# usage: eval_seeds.sh <seed-root> [props...]  — for every <seed-root>/*/out/m*/patch.diff run the owning property's check
root=${1:-/tmp}
shift
for d in $root/seed-C*/out/m*; do
  [ -f $d/patch.diff ] || continue
  pid=$(echo $d | sed 's/.*seed-\(C[0-9]*\).*/\1/')
  m=$(basename $d)
  props="${@:-$pid}"
  res=$(/verif/tools/try_seed.sh $d/patch.diff $props 2>&1 | grep "^==" | tr '\n' ' ')
  echo "$pid/$m: $res"
done
