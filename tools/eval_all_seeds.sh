#!/bin/bash
# usage: eval_all_seeds.sh [seed-id-pattern]   — runs each seeded change against the check of the property it breaks
# (scratch worktree, /repo untouched) and rewrites /verif/seeded/RESULTS.tsv: id, property, exit, violations, obligations
pat=${1:-.}
out=/verif/seeded/RESULTS.tsv
tmp=$(mktemp)
for d in /verif/seeded/C??-*/; do d=${d%/}
  id=$(basename $d); p=${id%%-*}
  echo $id | grep -q "$pat" || { grep "^$id	" $out >> $tmp 2>/dev/null; continue; }
  r=$(/verif/tools/eval_seed.sh $d/patch.diff $id $p | tail -1)
  rc=$(echo "$r" | sed 's/.*exit=\([0-9]*\).*/\1/'); nv=$(echo "$r" | sed 's/.*viol=\([0-9]*\).*/\1/'); ob=$(echo "$r" | sed 's/.*:: //')
  printf "%s\t%s\t%s\t%s\t%s\n" "$id" "$p" "$rc" "$nv" "$ob" >> $tmp
  echo "$id exit=$rc viol=$nv"
done
sort $tmp > $out; rm -f $tmp
awk -F'\t' '{n++; if ($3==1) c++} END {print c " of " n " seeded changes detected"}' $out
