#!/bin/bash
# usage: eval_all_seeds.sh [seed-id-pattern] [parallel]  — runs each seeded change against the check of the property it
# breaks (scratch worktree per seed, /repo untouched) and rewrites /verif/seeded/RESULTS.tsv:
# id, property, exit, violations, first failed obligations. One retry round (GOVC_ROUNDS=1) tells slow from failing.
pat=${1:-.}; par=${2:-3}
out=/verif/seeded/RESULTS.tsv
tmp=$(mktemp -d)
one() {
  d=$1; id=$(basename $d); p=${id%%-*}
  r=$(GOVC_ROUNDS=1 GOVC_NOREPLAY=1 /verif/tools/eval_seed.sh $d/patch.diff $id $p | tail -1)
  if echo "$r" | grep -q "DOES NOT APPLY"; then printf "%s\t%s\t%s\t%s\t%s\n" "$id" "$p" "-" "-" "patch no longer applies (the function was repaired by a fix commit)"; return; fi
  rc=$(echo "$r" | sed 's/.*exit=\([0-9]*\).*/\1/'); nv=$(echo "$r" | sed 's/.*viol=\([0-9]*\).*/\1/'); ob=$(echo "$r" | sed 's/.*:: //')
  printf "%s\t%s\t%s\t%s\t%s\n" "$id" "$p" "$rc" "$nv" "$ob"
}
export -f one
for d in /verif/seeded/C??-*/; do
  d=${d%/}; id=$(basename $d)
  if echo $id | grep -q "$pat"; then echo $d; else grep "^$id	" $out > $tmp/$id.keep 2>/dev/null; fi
done | xargs -P $par -I{} bash -c 'one {} > '$tmp'/$(basename {}).res; cat '$tmp'/$(basename {}).res | cut -c1-160'
cat $tmp/*.res $tmp/*.keep 2>/dev/null | sort > $out; rm -rf $tmp
awk -F'\t' '{n++; if ($3==1) c++; if ($3=="-") o++} END {print c " of " n " seeded changes detected (" o+0 " obsolete)"}' $out
