#!/bin/bash
# usage: mk_seed_wt.sh Cnn  — scratch worktree of /repo HEAD under /tmp/seed-Cnn, contract files removed,
# property text in /tmp/seed-Cnn-prop.json (nothing from /verif besides the given property record)
set -eu
p=$1
d=/tmp/seed${SEEDTAG:-}-$p
git -C /repo worktree remove --force $d 2>/dev/null || true
rm -rf $d
git -C /repo worktree add --detach $d HEAD >/dev/null 2>&1
# the contract files are removed by a commit on the worktree's detached HEAD (never on a branch of /repo),
# so `git checkout -- .` inside the worktree does not bring them back and patches stay clean
(cd $d && find . -name 'zz_contracts_verif.go' -print0 | xargs -0 git rm -q && git -c user.name=seed -c user.email=seed@x commit -qm "scratch: without contract files")
grep "\"id\": *\"$p\"" /verif/properties.jsonl | python3 -m json.tool > /tmp/seed${SEEDTAG:-}-$p-prop.json
mkdir -p $d/out
echo $d
