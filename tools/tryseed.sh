#!/bin/bash
# usage: tryseed.sh <seed-id> <func-pattern>...
export GOFLAGS=-mod=mod GOPROXY=off GOSUMDB=off GOTOOLCHAIN=local
s=$1; shift
cd /repo && git apply /verif/seeded/$s/patch.diff || { echo "no apply"; exit 1; }
for f in "$@"; do
  for m in client server; do
    (cd /repo/$m && GOVC_NORETRY=1 timeout 600 ${GOVC:-/verif/bin/govc} verify --func "$f" -timeout 20 2>&1 | grep -v "^   ok\|^     \|^loaded\|^done\|no function" | cut -c1-230 | head -5)
  done
done
cd /repo && git apply -R /verif/seeded/$s/patch.diff
