//go:build verif

// L2 lemma for C08 (proof function: verified against the CONTRACT of commitToMongoDB).

package service

import "github.com/orda-io/orda/client/pkg/errors"

// A commit that is reported as FAILED must leave the stored log as it was: only then is the client's retry (same
// checkpoint, same operations) the same request again. C08: "a retry succeeds once storage works again".
//@ proof lemmaRefusedCommitStoresNothing
//@   mode wrap
//@   props C08
//@   requires h != nil && handlerWF(h) && h.currentCP != nil && h.datatypeDoc != nil && h.resPushPullPack != nil
//@   requires h.currentCP.Sseq <= G.stored + len(h.pushingOperations)
//@   requires (!h.isReadOnly ==> h.currentCP.Sseq == G.stored + len(h.pushingOperations)) && (h.isReadOnly ==> len(h.pushingOperations) == 0 && h.datatypeDoc.Sseq.End <= G.stored)
//@   requires h.lock != nil && sel(G.held, h.lock)
//@   ensures[a-refused-commit-stores-nothing] result != nil ==> G.stored == old(G.stored)
//@   modifies *
func lemmaRefusedCommitStoresNothing(h *PushPullHandler) errors.OrdaError {
	return h.commitToMongoDB()
}
