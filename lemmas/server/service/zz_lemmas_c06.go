//go:build verif

// L2 lemma for C06/C05 (proof function: verified against the CONTRACTS of the three serve steps).

package service

import "github.com/orda-io/orda/client/pkg/errors"

// One served request, after the request was classified and the client's entry was set up: push, pull, commit.
// Inv_log (the recorded end of the log is exactly what is stored) is an INDUCTIVE invariant of this step: if it
// holds when the handler has loaded the datatype document under the lock, then after a successful request
//   - it holds again,
//   - the log grew by exactly the accepted operations, placed at positions old_end+1.. in the client's order,
//   - the reply acknowledges exactly that: checkpoint = (new end of the log, client sequence number of the last accepted op).
// "Checked after every request" is what invariance means; the number of requests, clients and batch sizes is unbounded.
//@ proof lemmaServeStepKeepsTheLogInvariant
//@   mode wrap
//@   props C06 C05
//@   requires h != nil && handlerWF(h) && h.currentCP != nil && h.initialCP != nil && h.datatypeDoc != nil && h.resPushPullPack != nil && reqOpsWF(h.gotPushPullPack.Operations)
//@   requires len(h.pushingOperations) == 0 && h.gotPushPullPack.CheckPoint != nil && h.currentCP != h.gotPushPullPack.CheckPoint && !h.isReadOnly
//@   requires h.lock != nil && sel(G.held, h.lock)
//@   requires[inv-log] h.datatypeDoc.Sseq.End == G.stored && G.stored < 4611686018427387904 && h.currentCP.Cseq < 4611686018427387904 && h.gotPushPullPack.CheckPoint.Sseq < 4611686018427387904
//@   ensures[inv-log-restored]            result == nil ==> h.datatypeDoc.Sseq.End == G.stored
//@   ensures[log-grew-by-the-accepted-ops] result == nil ==> G.stored == old(G.stored) + len(h.pushingOperations)
//@   ensures[appended-at-the-end-in-order] result == nil ==> (forall k int :: 0 <= k && k < len(h.pushingOperations) ==> h.pushingOperations[k].(*schema.OperationDoc).Sseq == old(G.stored) + 1 + k && h.pushingOperations[k].(*schema.OperationDoc).OpID.Seq == old(h.currentCP.Cseq) + 1 + k)
//@   ensures[reply-acknowledges-exactly-that] result == nil ==> h.resPushPullPack.CheckPoint != nil && h.resPushPullPack.CheckPoint.Sseq == G.stored && h.resPushPullPack.CheckPoint.Cseq == old(h.currentCP.Cseq) + len(h.pushingOperations)
//@   modifies *
func lemmaServeStepKeepsTheLogInvariant(h *PushPullHandler) errors.OrdaError {
	if err := h.pushOperations(); err != nil {
		return err
	}
	if err := h.pullOperations(); err != nil {
		return err
	}
	return h.commitToMongoDB()
}
