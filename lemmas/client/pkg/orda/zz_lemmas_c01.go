//go:build verif

// L2 lemmas (DESIGN.md section 2): proof functions that are verified like any other
// function — every call below is checked against the callee's CONTRACT (the ones L1
// proves on the real bodies), never against a restatement. They exist only in this
// overlay; nothing here is compiled into orda.

package orda

import "github.com/orda-io/orda/client/pkg/model"

// two replicas expose the same map view: same keys (tombstones included), same values, same
// (Era, Lamport, CUID) write times, same live count
//@ pred mapViewEq(a *mapSnapshot, b *mapSnapshot) = a.Size == b.Size && (forall k string :: (k in a.Map) == (k in b.Map) && (k in a.Map ==> tnAs(a.Map[k]).V == tnAs(b.Map[k]).V && tsSame(tnAs(a.Map[k]).T, tnAs(b.Map[k]).T)))
// replicas share no node objects
//@ pred mapsApart(a *mapSnapshot, b *mapSnapshot) = a != b && a.Map != b.Map && (forall k1 string, k2 string :: k1 in a.Map && k2 in b.Map ==> a.Map[k1] != b.Map[k2])
//@ pred sameNode(x timedType, y timedType) = tnAs(x).V == tnAs(y).V && tsSame(tnAs(x).T, tnAs(y).T)
//@ pred freshFor(m *mapSnapshot, x timedType) = tnode(x) && tnAs(x).V != nil && (forall k string :: k in m.Map ==> m.Map[k] != x)

// put(kx,x) || put(ky,y): both delivery orders give the same view (kx == ky included)
//@ proof lemmaMapPutPutCommute
//@   mode math nooverflow Size counts entries of an in-memory map
//@   props C01 C02
//@   dispatch timedType : *timedNode
//@   requires a != nil && b != nil && mapWF(a) && mapWF(b) && mapSized(a) && mapSized(b) && mapsApart(a, b) && mapViewEq(a, b) && mapInj(a) && mapInj(b)
//@   requires freshFor(a, x1) && freshFor(a, y1) && freshFor(b, x2) && freshFor(b, y2) && x1 != y1 && x2 != y2 && x1 != x2 && x1 != y2 && y1 != x2 && y1 != y2
//@   requires sameNode(x1, x2) && sameNode(y1, y2) && !tsSame(tnAs(x1).T, tnAs(y1).T)
//@   requires forall k string :: k in a.Map ==> !tsSame(tnAs(a.Map[k]).T, tnAs(x1).T) && !tsSame(tnAs(a.Map[k]).T, tnAs(y1).T)
//@   ensures[same-size]   a.Size == b.Size
//@   ensures[same-keys]   (k in a.Map) == (k in b.Map)
//@   ensures[same-values] k in a.Map ==> tnAs(a.Map[k]).V == tnAs(b.Map[k]).V && tsSame(tnAs(a.Map[k]).T, tnAs(b.Map[k]).T)
//@   modifies *
func lemmaMapPutPutCommute(a, b *mapSnapshot, kx, ky string, x1, x2, y1, y2 timedType, k string) {
	a.putCommonWithTimedType(kx, x1)
	a.putCommonWithTimedType(ky, y1)
	b.putCommonWithTimedType(ky, y2)
	b.putCommonWithTimedType(kx, x2)
}

// put(kx,x) || remove(kr) with write time ts: both delivery orders give the same view.
// Causal delivery (C05/C06: one log order, each client sees a prefix) provides the premise that the
// removed key already exists on both replicas — a remove is only ever issued for a key its author saw.
//@ proof lemmaMapPutRemoveCommute
//@   mode math nooverflow Size counts entries of an in-memory map
//@   props C01 C02
//@   dispatch timedType : *timedNode
//@   requires a != nil && b != nil && mapWF(a) && mapWF(b) && mapSized(a) && mapSized(b) && mapsApart(a, b) && mapViewEq(a, b) && mapInj(a) && mapInj(b)
//@   requires freshFor(a, x1) && freshFor(b, x2) && x1 != x2 && sameNode(x1, x2) && (forall k string :: k in a.Map ==> a.Map[k] != x2) && (forall k string :: k in b.Map ==> b.Map[k] != x1)
//@   requires validTS(ts) && !tsSame(tnAs(x1).T, ts) && kr in a.Map
//@   requires forall k string :: k in a.Map ==> !tsSame(tnAs(a.Map[k]).T, tnAs(x1).T) && !tsSame(tnAs(a.Map[k]).T, ts)
//@   ensures[same-size]   a.Size == b.Size
//@   ensures[same-keys]   (k in a.Map) == (k in b.Map)
//@   ensures[same-values] k in a.Map ==> tnAs(a.Map[k]).V == tnAs(b.Map[k]).V && tsSame(tnAs(a.Map[k]).T, tnAs(b.Map[k]).T)
//@   modifies *
func lemmaMapPutRemoveCommute(a, b *mapSnapshot, kx, kr string, x1, x2 timedType, ts *model.Timestamp, k string) {
	a.putCommonWithTimedType(kx, x1)
	a.removeRemoteWithTimedType(kr, ts)
	b.removeRemoteWithTimedType(kr, ts)
	b.putCommonWithTimedType(kx, x2)
}

// remove(k1) at t1 || remove(k2) at t2
//@ proof lemmaMapRemoveRemoveCommute
//@   mode math nooverflow Size counts entries of an in-memory map
//@   props C01 C02
//@   dispatch timedType : *timedNode
//@   requires a != nil && b != nil && mapWF(a) && mapWF(b) && mapSized(a) && mapSized(b) && mapsApart(a, b) && mapViewEq(a, b) && mapInj(a) && mapInj(b)
//@   requires validTS(t1) && validTS(t2) && !tsSame(t1, t2) && k1 in a.Map && k2 in a.Map
//@   requires forall k string :: k in a.Map ==> !tsSame(tnAs(a.Map[k]).T, t1) && !tsSame(tnAs(a.Map[k]).T, t2)
//@   ensures[same-size]   a.Size == b.Size
//@   ensures[same-keys]   (k in a.Map) == (k in b.Map)
//@   ensures[same-values] k in a.Map ==> tnAs(a.Map[k]).V == tnAs(b.Map[k]).V && tsSame(tnAs(a.Map[k]).T, tnAs(b.Map[k]).T)
//@   modifies *
func lemmaMapRemoveRemoveCommute(a, b *mapSnapshot, k1, k2 string, t1, t2 *model.Timestamp, k string) {
	a.removeRemoteWithTimedType(k1, t1)
	a.removeRemoteWithTimedType(k2, t2)
	b.removeRemoteWithTimedType(k2, t2)
	b.removeRemoteWithTimedType(k1, t1)
}

// Counter: increase(d1) || increase(d2), 32-bit wrap-around included
//@ proof lemmaCounterCommute
//@   mode bv
//@   props C01 C02
//@   requires a != nil && b != nil && a != b && a.Value == b.Value
//@   ensures[converged] a.Value == b.Value
//@   ensures[sum]       a.Value == old(a.Value) + d1 + d2
//@   modifies *
func lemmaCounterCommute(a, b *counterSnapshot, d1, d2 int32) {
	a.increaseCommon(d1)
	a.increaseCommon(d2)
	b.increaseCommon(d2)
	b.increaseCommon(d1)
}
