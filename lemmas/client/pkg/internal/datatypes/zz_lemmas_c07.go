//go:build verif

// L2 lemma for C07 (proof function: verified against the CONTRACT of excludeDuplicatedOperations).

package datatypes

import "github.com/orda-io/orda/client/pkg/model"

// Retry after a lost reply. The client (own id `me`, checkpoint (s, c)) pushed two operations; the server stored them
// behind one operation x of ANOTHER client that the client had not seen yet, and the reply was lost. The retry is
// answered with the window (s, s+3] of the log = [x, a1, a2] and checkpoint (s+3, c+2) — exactly what the server's
// pushOperations/pullOperations contracts produce for it (re-pushed a1, a2 ignored as duplicates, pull from the
// request's checkpoint s). C07 demands that x is applied and that a1, a2 — the client's own, already applied locally —
// are not applied again: after the exclusion step no operation of the client itself may remain in the pack.
//@ proof lemmaRetryAfterLostReplyKeepsForeignOnly
//@   mode wrap
//@   props C07
//@   requires w != nil && wiredWF(w) && w.opID != nil && ppp != nil && ppp.CheckPoint != nil && ppp.CheckPoint != w.checkPoint
//@   requires w.checkPoint.Sseq < 1000000 && w.checkPoint.Cseq < 1000000
//@   requires ppp.CheckPoint.Sseq == w.checkPoint.Sseq + 3 && ppp.CheckPoint.Cseq == w.checkPoint.Cseq + 2
//@   requires len(ppp.Operations) == 3 && (forall o in ppp.Operations :: o != nil && o.ID != nil)
//@   requires ppp.Operations[0].ID.CUID != w.opID.CUID && ppp.Operations[1].ID.CUID == w.opID.CUID && ppp.Operations[2].ID.CUID == w.opID.CUID
//@   ensures[own-operations-are-not-applied-again] forall o in ppp.Operations :: o.ID.CUID != w.opID.CUID
//@   ensures[the-foreign-operation-is-kept] len(ppp.Operations) == 1
//@   modifies *
func lemmaRetryAfterLostReplyKeepsForeignOnly(w *WiredDatatype, ppp *model.PushPullPack) {
	w.excludeDuplicatedOperations(ppp)
}

// A duplicated reply (the same reply delivered a second time: its checkpoint is what the client's checkpoint has
// already become), or one that is stale in its log position, hands NO operation to the datatype and leaves the
// checkpoint where it is.
//@ proof lemmaDuplicatedReplyAppliesNothing
//@   mode wrap
//@   props C07
//@   requires w != nil && wiredWF(w) && ppp != nil && ppp.CheckPoint != nil && ppp.CheckPoint != w.checkPoint
//@   requires w.checkPoint.Sseq < 4611686018427387904 && w.checkPoint.Cseq < 4611686018427387904 && len(ppp.Operations) < 1000000
//@   requires ppp.CheckPoint.Sseq <= w.checkPoint.Sseq && ppp.CheckPoint.Cseq == w.checkPoint.Cseq
//@   ensures[no-operation-is-applied-again] len(ppp.Operations) == 0
//@   ensures[checkpoint-stays]              w.checkPoint.Sseq == old(w.checkPoint.Sseq) && w.checkPoint.Cseq == old(w.checkPoint.Cseq)
//@   modifies *
func lemmaDuplicatedReplyAppliesNothing(w *WiredDatatype, ppp *model.PushPullPack) {
	w.excludeDuplicatedOperations(ppp)
	w.syncCheckPoint(ppp.CheckPoint)
}
