//go:build verif

// L2 lemma for C05 (proof function: verified against the CONTRACTS of the client's reply-handling steps).

package datatypes

import "github.com/orda-io/orda/client/pkg/model"

// A fault-free exchange, client side. The client is at checkpoint (s, c); its request pushed j operations and the
// server (C06 lemma: lemmaServeStepKeepsTheLogInvariant, pullOperations' contract) answers with the n operations of
// the log window (s, s+n] — none of them the client's own in a fault-free run — and the checkpoint (s+n+j, c+j).
// Then the client keeps ALL n operations for the datatype (none skipped, none duplicated) and its checkpoint becomes
// exactly the reply's: the next request continues where this one ended. With the server lemma this is the inductive
// step of "applied_c == foreign prefix of the log up to cp_c.Sseq" (DESIGN 5, C05) for fault-free histories.
//@ proof lemmaFaultFreeReplyIsAppliedInFull
//@   mode wrap
//@   props C05
//@   requires w != nil && wiredWF(w) && ppp != nil && ppp.CheckPoint != nil && ppp.CheckPoint != w.checkPoint
//@   requires n < 1000000 && j < 1000000 && w.checkPoint.Sseq < 2305843009213693952 && w.checkPoint.Cseq < 2305843009213693952
//@   requires ppp.CheckPoint.Sseq == w.checkPoint.Sseq + n + j && ppp.CheckPoint.Cseq == w.checkPoint.Cseq + j && len(ppp.Operations) == n
//@   ensures[every-pulled-operation-is-kept] len(ppp.Operations) == n && suffixOf(ppp.Operations, old(ppp.Operations))
//@   ensures[checkpoint-becomes-the-replys]  w.checkPoint.Sseq == ppp.CheckPoint.Sseq && w.checkPoint.Cseq == ppp.CheckPoint.Cseq
//@   ensures[reply-checkpoint-untouched]     ppp.CheckPoint.Sseq == old(ppp.CheckPoint.Sseq) && ppp.CheckPoint.Cseq == old(ppp.CheckPoint.Cseq)
//@   modifies *
func lemmaFaultFreeReplyIsAppliedInFull(w *WiredDatatype, ppp *model.PushPullPack, n, j uint64) {
	w.excludeDuplicatedOperations(ppp)
	w.syncCheckPoint(ppp.CheckPoint)
}
